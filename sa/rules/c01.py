"""C01 Tokenisation is lossless and independent of read chunking and source kind."""
import ast
import os
import re

from ..core import Ob, Rule, AnalysisError, norm, KeyMaker
from ..cfg import path_of
from .. import astutil as A

META = {
    'explanation': (
        'Necessary conditions only. R1 every literal open()/fdopen() mode in the package belongs to the mode grammar '
        'common to the supported interpreters, and X12Reader opens a path in a text read mode (the stream branch hands '
        'over text). R2 the constant subscripts applied to the ISA header in RawX12File.__init__ equal the offsets '
        'derived from the I01..I15 widths of dataele.xml through the control maps (element separator 3, ISA11 82, '
        'ISA12 84..88, ISA16 104, terminator 105, length 106) and the version whitelist equals the set of control map '
        'files. R3 every exit of the tokenising loop of RawX12File.__iter__ is guarded by an end-of-stream witness '
        '(emptiness test of a value returned by read()), an empty token is skipped rather than ending the iteration, '
        'and the header read retries until 106 characters or end of stream. R4 the delimiters handed to every Segment '
        'built by X12Reader.__iter__ originate from the header fields, and producers/consumers of the get_term() '
        'tuple agree by position. R5 the characters stripped in front of a token are exactly CR and LF. R6 under the '
        'ISA guard the separator handed to Composite is never the component separator.'),
    'not_decided': 'character-for-character equality of values, the format->parse round trip, '
                   '"documented normalisations only" (equalities of run-time strings)',
    'trusted_base': ['open() mode grammar of CPython 3.6-3.12', 'sa/xmlmodel.py', 'end-of-stream witness idioms enumerated in sa/rules/c01.py'],
    'technique': 'static analysis: constant-table agreement code<->data, CFG exit/witness reachability, provenance of call arguments',
}


META['explanation'] += ' Rounds 4-5: ' + 'R2 now evaluates the expression bound to each delimiter attribute over a header whose character at offset i is the number i, per whitelisted version (whitelist: literal or module constant). R8 Segment.format / Composite.format decided by constant propagation on empty / blank / filled positions: every position up to the last non-empty one is printed (a blank is a value).'
META['technique'] = META.get('technique', 'static analysis: AST/CFG rules over /repo source + shipped XML data') + '; conditional constant propagation over the CFG on finite, complete input domains (DESIGN.md 10.4.1)'


# --------------------------------------------------------------------------- R1
def mode_ok(mode):
    """valid for every CPython 3.6..3.12: exactly one of r w x a, optional +, at most one of t b, no repeats"""
    if not isinstance(mode, str) or not mode:
        return False
    if len(set(mode)) != len(mode):
        return False
    if not set(mode) <= set('rwxa+tb'):
        return False
    if sum(mode.count(c) for c in 'rwxa') != 1:
        return False
    if 't' in mode and 'b' in mode:
        return False
    return True


def open_calls(fn_or_tree):
    for c in A.calls_in(fn_or_tree):
        r, m = A.call_target(c)
        if (r is None and m == 'open') or (r == 'os' and m == 'fdopen') or (r == 'io' and m == 'open') or (r == 'codecs' and m == 'open'):
            mode = None
            if len(c.args) > 1:
                mode = c.args[1]
            for k in c.keywords:
                if k.arg == 'mode':
                    mode = k.value
            yield c, mode


def r1_open_modes(ctx):
    km = KeyMaker()
    for name in ctx.module_names():
        m = ctx.mod(name)
        for q, fn in list(A.all_functions(m.tree)) + [('<module>', m.tree)]:
            if q == '<module>':
                body = [s for s in m.tree.body if not isinstance(s, (ast.FunctionDef, ast.ClassDef))]
                node = ast.Module(body=body, type_ignores=[])
            else:
                node = fn
            for c, mode in open_calls(node):
                if mode is None:
                    yield Ob(km('%s:%s' % (name, q), norm(c), 'default mode'), True, ctx.loc(m, c), nontrivial=False)
                    continue
                if not A.is_str(mode):
                    yield Ob(km('%s:%s' % (name, q), norm(c), 'non-literal mode'), True, ctx.loc(m, c), nontrivial=False,
                             note='mode is not a literal; not decided')
                    continue
                ok = mode_ok(mode.value)
                yield Ob(km('%s:%s' % (name, q), norm(c)), ok, ctx.loc(m, c),
                         '' if ok else 'mode %r is not accepted by every supported interpreter (ValueError: invalid mode on Python >= 3.11)' % mode.value)
    # the anchored one: X12Reader.__init__ path branch must be a text read mode
    fn = ctx.func('x12file', 'X12Reader.__init__')
    found = 0
    for c, mode in open_calls(fn):
        found += 1
        mv = mode.value if (mode is not None and A.is_str(mode)) else ('r' if mode is None else None)
        ok = mv is not None and mode_ok(mv) and 'r' in mv and 'b' not in mv and '+' not in mv
        yield Ob('x12file:X12Reader.__init__ path source opened for text reading', ok, ctx.floc(fn, c),
                 '' if ok else 'mode %r: the reader compares the header with str and must not write' % (mv,))
        # every character of the file reaches the tokenizer or the open fails loudly: no decoding policy that drops or
        # replaces bytes (errors='ignore' / 'replace' ...) - a path source would then differ from a stream of the same text
        pol = [k for k in c.keywords if k.arg == 'errors']
        okp = not pol or A.const(pol[0].value) in ('strict', None)
        yield Ob('x12file:X12Reader.__init__ path source is decoded strictly', okp, ctx.floc(fn, c),
                 '' if okp else 'errors=%s: bytes that are not in the encoding are silently dropped or replaced, the segments read by path are not the '
                 'characters of the file' % norm(pol[0].value))
    if not found:
        raise AnalysisError('X12Reader.__init__ no longer opens the path source')


def r1b_source_kind(ctx):
    """path or stream: X12Reader.__init__ decided by constant propagation for a path string, for '-' and for an open
    stream that is NOT an io class (a codecs reader, a wrapper with read/close/closed): the stream is used as it is - never
    handed to open() -, a path is opened, '-' is standard input.  A nominal type test (isinstance of io.IOBase) instead of
    the duck-typed probe refuses every stream that is not derived from the io classes."""
    import io as _io
    from ..absint import explore
    fn = ctx.func('x12file', 'X12Reader.__init__')
    g = ctx.cfg(fn)

    class _Stream(object):
        _sa_model = True
        _sa_closed = True
        closed = False
        mode = 'r'
        encoding = 'ascii'
        name = 'wrapped'

        def read(self, n=-1):
            return ''

        def readable(self):
            return True

        def close(self):
            pass
    bad = []
    for label, src, want in (('a path', 'claims.x12', 'opened'), ("'-'", '-', 'stdin'), ('an open stream that is not an io class', _Stream(), 'as is')):
        seen = {'open': [], 'fd': []}

        def on_node(nd, env, seen=seen):
            if nd.ast is None:
                return
            for c in g.walk_exprs(nd):
                if isinstance(c, ast.Call) and isinstance(c.func, ast.Name) and c.func.id == 'open' and c.args:
                    try:
                        seen['open'].append(A.ev(c.args[0], env))
                    except A.NotClosed:
                        seen['open'].append('?')
            a_ = nd.ast
            if nd.kind == 'stmt' and isinstance(a_, ast.Assign) and any(path_of(t) == 'self.fd_in' for t in a_.targets):
                try:
                    seen['fd'].append(A.ev(a_.value, env, {'open': lambda *x, **k: 'OPENED'}))
                except A.NotClosed:
                    seen['fd'].append(norm(a_.value))
        env = {'src_file_obj': src, 'io.IOBase': _io.IOBase, 'io.TextIOBase': _io.TextIOBase, 'io.StringIO': _io.StringIO, 'io.TextIOWrapper': _io.TextIOWrapper}
        try:
            explore(g, env, funcs={'isinstance': isinstance, 'hasattr': hasattr, 'callable': callable,
                                   'getattr': lambda o, n_, *d: getattr(o, n_, *d)},
                    on_node=on_node, unknown='stop', concrete_exceptions=True)
        except RuntimeError as e:
            raise AnalysisError('X12Reader.__init__: %s' % e)
        fds = [f for f in seen['fd'] if f is not None]
        if want == 'opened':
            ok = seen['open'] == [src]
        elif want == 'stdin':
            ok = not seen['open'] and fds[-1:] == ['sys.stdin']
        else:
            ok = not seen['open'] and fds[-1:] == [src]
        if not ok:
            bad.append('%s: open() called on %s, self.fd_in bound to %s' % (label, seen['open'] or 'nothing', [str(f) if not isinstance(f, _Stream) else 'the stream' for f in fds] or 'nothing'))
    yield Ob('x12file:X12Reader.__init__ uses a stream as it is, opens a path, reads standard input for "-"', not bad, ctx.floc(fn), '' if not bad else bad[0])


# --------------------------------------------------------------------------- R2
def _isa_widths(ctx):
    ms = ctx.maps
    out = {}
    for f in ms.control_files():
        m = ms.map(f)
        if m is None:
            raise AnalysisError('control map %s vanished' % f)
        isa = ms.getnodebypath(m, '/ISA_LOOP/ISA')
        if isa is None:
            raise AnalysisError('%s has no /ISA_LOOP/ISA' % f)
        widths = []
        for e in isa.children:
            d = ms.dataele.get(e.data_ele)
            if d is None:
                raise AnalysisError('%s ISA element %s has no data element' % (f, e.id))
            widths.append((e.id, d['min_len'], d['max_len']))
        out[f] = widths
    return out


def r2_isa_offsets(ctx):
    fn = ctx.func('rawx12file', 'RawX12File.__init__')
    m = ctx.mod('rawx12file')
    consts = {}
    for n in m.tree.body:
        if isinstance(n, ast.Assign) and isinstance(n.targets[0], ast.Name):
            try:
                consts[n.targets[0].id] = A.ev(n.value, consts)
            except Exception:
                pass
    widths = _isa_widths(ctx)
    derived = None
    for f, w in widths.items():
        fixed = all(a == b for _, a, b in w)
        yield Ob('%s ISA elements have fixed widths' % f, fixed and len(w) == 16, 'pyx12/map/' + f,
                 '' if fixed and len(w) == 16 else 'ISA element widths %s' % w)
        starts = {}
        pos = 4
        for i, (eid, a, b) in enumerate(w, 1):
            starts[i] = (pos, pos + a)
            pos += a + 1
        d = {'ele_sep': 3, 'ISA11': starts[11][0], 'ISA12': starts[12], 'ISA16': starts[16][0],
             'seg_term': starts[16][1], 'length': starts[16][1] + 1}
        if derived is None:
            derived = d
        else:
            yield Ob('control maps agree on the ISA layout', d == derived, 'pyx12/map/' + f, '' if d == derived else '%s vs %s' % (d, derived))
    isa_len = consts.get('ISA_LEN')
    ok = isa_len == derived['length']
    yield Ob('rawx12file ISA_LEN', ok, 'pyx12/rawx12file.py', '' if ok else 'ISA_LEN = %r, layout derived from dataele.xml gives %d' % (isa_len, derived['length']))
    # header read size
    reads = [c for c in A.calls_in(fn) if A.call_target(c)[1] == 'read']
    if not reads:
        raise AnalysisError('RawX12File.__init__ no longer reads the header')
    # where each delimiter is read from, decided by evaluating the expression bound to the attribute over a header whose
    # "character" at offset i is the number i (per interchange version, with the module constants)
    from .c02 import _whitelist as _wl
    modc = A.module_constants(m.tree)
    want = {'seg_term': derived['seg_term'], 'ele_term': derived['ele_sep'], 'subele_term': derived['ISA16'],
            'repetition_term': derived['ISA11'], 'icvn': tuple(range(*derived['ISA12']))}
    binds = {}
    for n in ast.walk(fn):
        if isinstance(n, ast.Assign) and len(n.targets) == 1 and (path_of(n.targets[0]) or '').startswith('self.'):
            binds.setdefault(path_of(n.targets[0])[5:], []).append(n)
    isa_len = consts.get('ISA_LEN')
    for attr, w in want.items():
        key = 'rawx12file:RawX12File.__init__ %s offset' % attr
        defs = [n for n in binds.get(attr, []) if any(isinstance(x, ast.Subscript) for x in ast.walk(n.value))]
        if not defs:
            yield Ob(key, False, ctx.floc(fn), 'no header subscript assigned to self.%s' % attr)
            continue
        n = defs[-1]
        hdrs = {x.value.id for x in ast.walk(n.value) if isinstance(x, ast.Subscript) and isinstance(x.value, ast.Name) and x.value.id not in modc}
        if len(hdrs) != 1 or not isinstance(isa_len, int):
            raise AnalysisError('RawX12File.__init__: the header variable behind self.%s is not recognised' % attr)
        got = {}
        for v in sorted(_wl(ctx)):
            env = dict(modc)
            env.update({next(iter(hdrs)): tuple(range(isa_len)), 'self.icvn': v})
            try:
                got[v] = A.ev(n.value, env)
            except (A.NotClosed, TypeError, KeyError, IndexError) as e:
                raise AnalysisError('RawX12File.__init__: the offset of self.%s cannot be evaluated: %s' % (attr, e))
        if attr == 'repetition_term':
            # ISA11 is the repetition separator from version 00501 on; before that the position holds the standards id
            ok = got.get('00501') == w and all(g_ in (w, None) for g_ in got.values())
        else:
            ok = all(g_ == w for g_ in got.values())
        yield Ob(key, ok, ctx.floc(fn, n), '' if ok else 'reads header offset %s, the ISA layout puts it at %s' % (got, w))
    # 'ISA' literal test on the first three characters
    ok = False
    for n in ast.walk(fn):
        if isinstance(n, ast.Compare) and A.const(n.comparators[0]) == 'ISA' and isinstance(n.left, ast.Subscript) \
                and isinstance(n.left.slice, ast.Slice) and A.const(n.left.slice.upper) == 3 and n.left.slice.lower is None:
            ok = True
    yield Ob('rawx12file:RawX12File.__init__ tests the first three characters for ISA', ok, ctx.floc(fn), '' if ok else 'header tag test changed')
    # version whitelist = control map files present = versions the callers select a control map for
    from .c02 import _whitelist
    wl = _whitelist(ctx)
    files = {f[len('x12.control.'):-4] for f in os.listdir(ctx.maps.dir) if f.startswith('x12.control.') and f.endswith('.xml')}
    ok = wl == files
    yield Ob('rawx12file:RawX12File.__init__ version whitelist = control maps shipped', ok, ctx.floc(fn),
             '' if ok else 'whitelist %s, control maps for %s' % (sorted(wl), sorted(files)))
    for modname, qual in (('x12n_document', 'x12n_document'), ('x12context', 'X12ContextReader.__init__')):
        f2 = ctx.func(modname, qual)
        lits = {s.value for s in ast.walk(f2) if A.is_str(s) and s.value.startswith('x12.control.')}
        # (a table of control maps kept in a module-level constant the function reads)
        modc2 = A.module_constants(ctx.mod(modname).tree)
        for nm_ in {x.id for x in ast.walk(f2) if isinstance(x, ast.Name) and x.id in modc2}:
            v_ = modc2[nm_]
            vals_ = list(v_.values()) if isinstance(v_, dict) else (list(v_) if isinstance(v_, (tuple, frozenset)) else [v_])
            lits |= {x for x in vals_ if isinstance(x, str) and x.startswith('x12.control.')}
        vers = {x[len('x12.control.'):-4] for x in lits}
        ok = vers == wl
        yield Ob('%s:%s selects a control map for every whitelisted version' % (modname, qual), ok, ctx.floc(f2),
                 '' if ok else 'selects %s, whitelist %s' % (sorted(vers), sorted(wl)))


# --------------------------------------------------------------------------- R3
def _read_vars(fn):
    """local names / self attrs assigned (only) from <x>.read(...)"""
    out = set()
    for n in ast.walk(fn):
        if isinstance(n, ast.Assign) and len(n.targets) == 1 and isinstance(n.value, ast.Call) \
                and A.call_target(n.value)[1] == 'read':
            p = path_of(n.targets[0])
            if p:
                out.add(p)
    return out


def _witness_edges(g, rvars):
    """set of (node id, label) edges that are taken exactly when a value returned by read() is empty"""
    out = set()
    for nd in g.nodes:
        if nd.kind != 'test':
            continue
        e = nd.ast
        p = path_of(e)
        if p in rvars:
            out.add((nd.id, 'F'))
        if isinstance(e, ast.Compare) and len(e.ops) == 1:
            l, op, r = e.left, e.ops[0], e.comparators[0]
            for a, b in ((l, r), (r, l)):
                if path_of(a) in rvars and A.const(b) == '':
                    out.add((nd.id, 'T' if isinstance(op, ast.Eq) else 'F' if isinstance(op, ast.NotEq) else None))
                if isinstance(a, ast.Call) and path_of(a.func) == 'len' and a.args and path_of(a.args[0]) in rvars and A.const(b) == 0:
                    if isinstance(op, ast.Eq):
                        out.add((nd.id, 'T'))
                    elif isinstance(op, (ast.NotEq, ast.Gt)) and a is l:
                        out.add((nd.id, 'F'))
    return {x for x in out if x[1]}


def _loop_nodes(g, head):
    """nodes of the natural loop of `head` (nodes that can reach a back edge to head without leaving through head)"""
    body = {head.id}
    st = [p for p, l in head.pred if p.id > head.id]
    while st:
        n = st.pop()
        if n.id in body:
            continue
        body.add(n.id)
        for p, l in n.pred:
            st.append(p)
    return body


def r3_tokenizer_exits(ctx):
    fn = ctx.func('rawx12file', 'RawX12File.__iter__')
    g = ctx.cfg(fn)
    heads = [n for n in g.nodes if n.kind in ('loophead', 'for') and isinstance(n.stmt, (ast.While, ast.For)) and n.stmt in fn.body]
    if len(heads) != 1:
        raise AnalysisError('RawX12File.__iter__: expected one top-level tokenising loop, found %d' % len(heads))
    head = heads[0]
    rvars = _read_vars(fn)
    wit = _witness_edges(g, rvars)
    body = _loop_nodes(g, head)
    yields = [n for n in g.nodes if n.id in body and any(isinstance(x, (ast.Yield, ast.YieldFrom)) for x in g.walk_exprs(n))]
    if not yields:
        raise AnalysisError('RawX12File.__iter__: the loop does not yield')
    # exits: edges from a loop node to a node outside the loop (normal edges only)
    exits = []
    for nid in body:
        n = g.nodes[nid]
        for s, l in n.succ:
            if l != 'exc' and s.id not in body:
                exits.append((n, l, s))
    if not exits:
        raise AnalysisError('RawX12File.__iter__: loop has no exit')
    for n, l, s in exits:
        # is there a path from the loop head to this exit edge that takes no witness edge?
        def edge_ok(a, lab, b):
            return (a.id, lab) not in wit and b.id in body
        if n is head:
            path = [head]
        else:
            path = g.find_path(head, lambda x: x is n, edge_ok=edge_ok)
        bad = path is not None and (n.id, l) not in wit
        key = 'rawx12file:RawX12File.__iter__ exit at `%s`' % norm(n.ast if n.ast is not None else n.stmt, 60)
        yield Ob(key, not bad, ctx.floc(fn, n.stmt),
                 '' if not bad else 'the iteration can end here without the stream being exhausted (no emptiness test of a '
                 'read() result on the path): a segment longer than one refill, a short read, or an empty token ends the stream early',
                 detail={'path': [repr(x) for x in (path or [])][-8:]})
    # buffer conservation: the unconsumed tail is only ever extended by read() results or cut at the first terminator
    cls = ctx.cls('rawx12file', 'RawX12File')
    km = KeyMaker()
    for f in cls.body:
        if not isinstance(f, ast.FunctionDef):
            continue
        rv = _read_vars(f)
        for n in ast.walk(f):
            tgts = []
            if isinstance(n, ast.Assign):
                for t in n.targets:
                    tgts += list(t.elts) if isinstance(t, ast.Tuple) else [t]
            elif isinstance(n, ast.AugAssign):
                tgts = [n.target]
            if not any(path_of(t) == 'self.buffer' for t in tgts):
                continue
            key = km('rawx12file:RawX12File.%s' % f.name, norm(n))
            ok = False
            why = 'unrecognised store to the tokenizer buffer'
            if isinstance(n, ast.AugAssign):
                v = n.value
                ok = isinstance(n.op, ast.Add) and (path_of(v) in rv or (isinstance(v, ast.Call) and A.call_target(v)[1] == 'read'))
                why = 'buffer extended by something that is not a read() result'
            elif isinstance(n.targets[0], ast.Tuple):
                v = n.value
                t = n.targets[0]
                ok = isinstance(v, ast.Call) and A.call_target(v) == ('self.buffer', 'split') and len(v.args) == 2 \
                    and path_of(v.args[0]) == 'self.seg_term' and A.const(v.args[1]) == 1 \
                    and len(t.elts) == 2 and path_of(t.elts[1]) == 'self.buffer'
                why = 'the buffer must be cut at the first declared terminator: (token, self.buffer) = self.buffer.split(self.seg_term, 1)'
            else:
                v = n.value
                # names that hold the rest of a cut at the first declared terminator:  tok, REST = self.buffer.split(self.seg_term, 1)
                rests = {t_.elts[1].id for st_ in ast.walk(f) if isinstance(st_, ast.Assign) and len(st_.targets) == 1
                         for t_ in [st_.targets[0]] if isinstance(t_, ast.Tuple) and len(t_.elts) == 2 and isinstance(t_.elts[1], ast.Name)
                         and isinstance(st_.value, ast.Call) and A.call_target(st_.value) == ('self.buffer', 'split') and len(st_.value.args) == 2
                         and path_of(st_.value.args[0]) == 'self.seg_term' and A.const(st_.value.args[1]) == 1}
                # names whose value IS the buffer at this store: the statement before it in the block stored that name into the buffer
                prev_alias = set()
                blk_ = [b_ for o_ in ast.walk(f) for fld in ('body', 'orelse', 'finalbody') for b_ in [getattr(o_, fld, None)]
                        if isinstance(b_, list) and n in b_]
                if blk_ and blk_[0].index(n) > 0:
                    pst = blk_[0][blk_[0].index(n) - 1]
                    if isinstance(pst, ast.Assign) and len(pst.targets) == 1 and path_of(pst.targets[0]) == 'self.buffer' and isinstance(pst.value, ast.Name):
                        prev_alias.add(pst.value.id)
                if A.const(v) is None and isinstance(v, ast.Constant):
                    ok = f.name == '__init__'
                elif isinstance(v, ast.Name) and v.id in rests and sum(1 for x in ast.walk(f) if isinstance(x, ast.Name) and x.id == v.id
                                                                      and isinstance(x.ctx, ast.Store)) == 1:
                    ok = True
                elif isinstance(v, ast.Name):
                    ok = f.name == '__init__' and any(isinstance(x, ast.Subscript) and path_of(x.value) == v.id for x in ast.walk(f))
                elif isinstance(v, ast.BinOp) and isinstance(v.op, ast.Add) and (path_of(v.left) == 'self.buffer' or path_of(v.left) in prev_alias):
                    ok = path_of(v.right) in rv or (isinstance(v.right, ast.Call) and A.call_target(v.right)[1] == 'read')
                why = 'the buffer is overwritten: unconsumed input would be lost'
            yield Ob(key, ok, ctx.loc('rawx12file', n), '' if ok else why)
    # the token handed out is the part before the terminator, only stripped of leading line breaks
    ys = [x for x in ast.walk(fn) if isinstance(x, ast.Yield)]
    toks = {t_.elts[0].id for st_ in ast.walk(fn) if isinstance(st_, ast.Assign) and len(st_.targets) == 1
            for t_ in [st_.targets[0]] if isinstance(t_, ast.Tuple) and len(t_.elts) == 2 and isinstance(t_.elts[0], ast.Name)
            and isinstance(st_.value, ast.Call) and A.call_target(st_.value) == ('self.buffer', 'split')}
    for y in ys:
        ok = path_of(y.value) in toks
        yield Ob('rawx12file:RawX12File.__iter__ yields the token', ok, ctx.floc(fn, y), '' if ok else 'yields %s' % norm(y.value))
    # the header read retries until ISA_LEN or end of stream
    init = ctx.func('rawx12file', 'RawX12File.__init__')
    ok = False
    why = 'the header is read once; a stream that returns fewer than ISA_LEN characters per read is reported as a short ISA'
    isa_len = A.module_constants(ctx.mod('rawx12file').tree).get('ISA_LEN', 106)
    for part in ctx.region('rawx12file', 'RawX12File.__init__'):
      gi = ctx.cfg(part)
      rv = _read_vars(part)
      wi = set(_witness_edges(gi, rv))
      # a test on the length read so far: the outcome it has once ISA_LEN characters are there is a legitimate way out
      for nd_ in gi.nodes:
          if nd_.kind == 'test' and 'len(' in norm(nd_.ast):
              lens = [c_ for c_ in ast.walk(nd_.ast) if isinstance(c_, ast.Call) and path_of(c_.func) == 'len' and c_.args and isinstance(c_.args[0], ast.Name)]
              if len({c_.args[0].id for c_ in lens}) == 1:
                  try:
                      full = bool(A.ev(nd_.ast, {lens[0].args[0].id: 'x' * isa_len, 'ISA_LEN': isa_len}))
                      short = bool(A.ev(nd_.ast, {lens[0].args[0].id: 'x' * (isa_len - 1), 'ISA_LEN': isa_len}))
                  except (A.NotClosed, TypeError):
                      continue
                  if full != short:
                      wi.add((nd_.id, 'T' if full else 'F'))
      loops = [n for n in gi.nodes if n.kind in ('loophead',)]
      for h in loops:
          b = _loop_nodes(gi, h)
          has_read = any(A.call_target(c)[1] == 'read' for nid in b for x in gi.walk_exprs(gi.nodes[nid]) for c in ([x] if isinstance(x, ast.Call) else []))
          if not has_read:
              continue
          ex = [(gi.nodes[nid], l, s) for nid in b for s, l in gi.nodes[nid].succ if l != 'exc' and s.id not in b]
          good = True
          for n, l, s in ex:
              if (n.id, l) in wi:
                  continue
              if n.kind == 'test' and 'len(' in norm(n.ast) and 'ISA_LEN' in norm(n.ast):
                  continue
              if n.kind in ('break', 'return'):
                  # a break / return must be dominated by a witness edge inside the loop
                  p = gi.find_path(h, lambda x: x is n, edge_ok=lambda a, lab, bb: (a.id, lab) not in wi and bb.id in b)
                  if p is None:
                      continue
              good = False
          if good:
              ok = True
    yield Ob('rawx12file:RawX12File.__init__ header read retries until ISA_LEN or end of stream', ok, ctx.floc(init), '' if ok else why)


# --------------------------------------------------------------------------- R4
def _return_tuple(fn):
    rets = [n for n in ast.walk(fn) if isinstance(n, ast.Return)]
    if len(rets) != 1 or not isinstance(rets[0].value, ast.Tuple):
        raise AnalysisError('%s: single tuple return not found' % fn.name)
    return rets[0].value.elts


def r4_delimiter_provenance(ctx):
    it = ctx.func('x12file', 'X12Reader.__iter__')
    segs = [c for c in A.calls_in(it) if A.call_target(c)[1] == 'Segment']
    if not segs:
        raise AnalysisError('X12Reader.__iter__ no longer builds Segment objects')
    names = ('seg_term', 'ele_term', 'subele_term')
    for c in segs:
        for i, nm in enumerate(names, 1):
            got = path_of(c.args[i]) if len(c.args) > i else None
            ok = got == 'self.' + nm
            yield Ob('x12file:X12Reader.__iter__ Segment arg %d is the header %s' % (i, nm), ok, ctx.floc(it, c),
                     '' if ok else 'argument %d is %s' % (i, norm(c.args[i]) if len(c.args) > i else 'missing'))
        # the text handed to Segment is the token the tokenizer yielded, at most left-stripped (whatever it is called)
        from ..cfg import derives_only_from, node_of
        g_it = ctx.cfg(it)

        def _is_tok(e, nd):
            return isinstance(e, tuple) and e[0] == 'iter' and e[1] is not None and path_of(e[1]) == 'self.raw'

        def _unwrap(e):
            if isinstance(e, ast.Call) and isinstance(e.func, ast.Attribute) and e.func.attr == 'lstrip' and not e.args and not e.keywords:
                return e.func.value
            return None
        at = node_of(g_it, c)
        ok = bool(c.args) and at is not None and derives_only_from(g_it, c.args[0], at, _is_tok, _unwrap)
        yield Ob('x12file:X12Reader.__iter__ Segment is built from the token', ok, ctx.floc(it, c), '' if ok else 'first argument is %s' % norm(c.args[0]))
    # X12Reader.__init__: every delimiter attribute is the get_term() field of the same name.  Recognised forms:
    #   (a, b, ..) = self.raw.get_term() ; self.x = a        (a, b may be attributes themselves)
    #   self.x = self.raw.get_term()[i]                      (also what the normal form makes of the first)
    init = ctx.func('x12file', 'X12Reader.__init__')
    pos_of = {}
    arity = None
    for n in ast.walk(init):
        if not isinstance(n, ast.Assign) or len(n.targets) != 1:
            continue
        t, v = n.targets[0], n.value
        if isinstance(t, ast.Tuple) and isinstance(v, ast.Call) and A.call_target(v)[1] == 'get_term':
            arity = len(t.elts)
            for i, x in enumerate(t.elts):
                if path_of(x):
                    pos_of[path_of(x)] = i
    for n in ast.walk(init):
        if not isinstance(n, ast.Assign) or len(n.targets) != 1:
            continue
        t, v = path_of(n.targets[0]), n.value
        if not t:
            continue
        if isinstance(v, ast.Subscript) and isinstance(v.value, ast.Call) and A.call_target(v.value)[1] == 'get_term' \
                and isinstance(A.const(v.slice), int):
            pos_of[t] = A.const(v.slice)
        elif path_of(v) in pos_of and t not in pos_of:
            pos_of[t] = pos_of[path_of(v)]
    if not pos_of:
        raise AnalysisError('X12Reader.__init__: get_term() unpacking not found')
    raw = ctx.func('rawx12file', 'RawX12File.get_term')
    prod = [path_of(x) if not isinstance(x, ast.Constant) else repr(x.value) for x in _return_tuple(raw)]
    base = ctx.func('x12file', 'X12Base.get_term')
    prod2 = [path_of(x) if not isinstance(x, ast.Constant) else repr(x.value) for x in _return_tuple(base)]
    ok = prod == prod2
    yield Ob('get_term producers agree by position (RawX12File / X12Base)', ok, ctx.floc(raw),
             '' if ok else '%s vs %s' % (prod, prod2))
    ok = (arity is None or arity == len(prod)) and all(p < len(prod) for p in pos_of.values())
    yield Ob('x12file:X12Reader.__init__ unpacks as many fields as get_term returns', ok, ctx.floc(init),
             '' if ok else 'unpacks %s, producer returns %d' % (arity, len(prod)))
    for nm in names + ('repetition_term',):
        pos = pos_of.get('self.' + nm)
        ok = pos is not None and pos < len(prod) and prod[pos] == 'self.' + nm
        yield Ob('x12file:X12Reader.__init__ self.%s comes from the header field of the same name' % nm, ok, ctx.floc(init),
                 '' if ok else 'self.%s <- producer position %s = %s' % (nm, pos, prod[pos] if pos is not None and pos < len(prod) else None))
    # error_html consumer
    eh = ctx.func('error_html', 'error_html.__init__')
    idx = {}
    for n in ast.walk(eh):
        if isinstance(n, ast.Assign) and isinstance(n.value, ast.Subscript) and path_of(n.value.value) == 'term':
            t = path_of(n.targets[0])
            if t and t.startswith('self.'):
                idx[t[5:]] = A.const(n.value.slice)
    for nm in names:
        pos = idx.get(nm)
        ok = pos is not None and pos < len(prod) and prod[pos] == 'self.' + nm
        yield Ob('error_html:error_html.__init__ term[%s] is %s' % (pos, nm), ok, ctx.floc(eh),
                 '' if ok else 'self.%s <- term[%s] = %s' % (nm, pos, prod[pos] if isinstance(pos, int) and pos < len(prod) else None))
    # RawX12File fields are assigned only in __init__ and only from the header
    rcls = ctx.cls('rawx12file', 'RawX12File')
    for f in rcls.body:
        if isinstance(f, ast.FunctionDef) and f.name != '__init__':
            for n in ast.walk(f):
                if isinstance(n, (ast.Assign, ast.AugAssign)):
                    for t in (n.targets if isinstance(n, ast.Assign) else [n.target]):
                        p = path_of(t)
                        if p in ('self.seg_term', 'self.ele_term', 'self.subele_term'):
                            yield Ob('rawx12file:RawX12File.%s must not reassign %s' % (f.name, p), False, ctx.loc('rawx12file', n),
                                     'a delimiter is changed after the header was read')


# --------------------------------------------------------------------------- R5
def r5_strip_set(ctx):
    fn = ctx.func('rawx12file', 'RawX12File.__iter__')
    strips = [c for c in A.calls_in(fn) if A.call_target(c)[1] in ('lstrip', 'strip', 'rstrip')]
    if not strips:
        raise AnalysisError('RawX12File.__iter__: no strip of line breaks found')
    for c in strips:
        meth = A.call_target(c)[1]
        arg = A.const(c.args[0]) if c.args else None
        ok = meth == 'lstrip' and arg is not None and set(arg) == {'\n', '\r'}
        yield Ob('rawx12file:RawX12File.__iter__ strips exactly CR and LF in front of a token', ok, ctx.floc(fn, c),
                 '' if ok else '%s(%r): %s' % (meth, arg, 'no argument strips blanks too (hides the leading-blank error)' if arg is None
                                              else 'must strip leading CR/LF only'))
    # (the leading-blank error of the reader is decided by C01.R11: the iteration run over a token stream)


# --------------------------------------------------------------------------- R6
def r6_isa_not_subsplit(ctx):
    """With the segment id pinned to 'ISA', constant propagation through the function (the separators are symbolic
    constants) gives the separator each reachable Composite(...) construction is built with.
    __init__: no ISA element may be built with the component separator (whatever the element's position);
    set: an ISA special case exists and does not use it."""
    from ..absint import explore
    for qual in ('Segment.__init__', 'Segment.set'):
        fn = ctx.func('segment', qual)
        g = ctx.cfg(fn)
        env0 = {'self.seg_id': 'ISA'}
        for a_ in fn.args.args:
            # the separators are symbolic constants; the text of the segment stays unknown (both outcomes of every test on it)
            if a_.arg != 'self' and a_.arg.endswith('_term'):
                env0[a_.arg] = '<%s>' % a_.arg
        for t in ('seg_term', 'ele_term', 'subele_term', 'repetition_term'):
            env0.setdefault('self.' + t, '<%s>' % t)
        seps = {}

        def on_node(nd, env):
            for x in g.walk_exprs(nd):
                if isinstance(x, ast.Call) and A.call_target(x)[1] == 'Composite' and len(x.args) >= 2:
                    try:
                        v = A.ev(x.args[1], env)
                    except A.NotClosed:
                        v = '?'
                    seps.setdefault(id(x), (x, set()))[1].add(v)
        try:
            explore(g, env0, on_node=on_node, pinned={'self.seg_id'})
        except RuntimeError as e:
            raise AnalysisError('segment:%s: %s' % (qual, e))
        if not seps:
            raise AnalysisError('segment:%s builds no Composite' % qual)
        safe = [x for x, vs in seps.values() if vs and '<subele_term>' not in vs and '?' not in vs]
        unsafe = [x for x, vs in seps.values() if '<subele_term>' in vs or '?' in vs]
        if qual == 'Segment.__init__':
            ok = not unsafe
            yield Ob('segment:%s ISA element is not split at the component separator' % qual, ok, ctx.floc(fn, (unsafe or safe)[0]),
                     '' if ok else 'with seg_id == ISA a Composite is still built with the component separator (%s): an ISA field that '
                     'contains the separator character would be split' % norm(unsafe[0]))
            yield Ob('segment:%s has an ISA special case' % qual, bool(safe), ctx.floc(fn),
                     '' if safe else 'no Composite(...) construction with another separator for seg_id == \'ISA\': the ISA would be sub-split')
        else:
            yield Ob('segment:%s has an ISA special case' % qual, bool(safe), ctx.floc(fn),
                     '' if safe else 'no Composite(...) construction with another separator for seg_id == \'ISA\': ISA16 would be sub-split')
            for x in safe:
                yield Ob('segment:%s ISA element is not split at the component separator' % qual, True, ctx.floc(fn, x))
    # set: the special case must cover ISA16 (index 15)
    fn = ctx.func('segment', 'Segment.set')
    ok = any(isinstance(n, ast.Compare) and path_of(n.left) == 'ele_idx' and A.const(n.comparators[0]) == 15 for n in ast.walk(fn))
    yield Ob('segment:Segment.set special case addresses ISA16', ok, ctx.floc(fn), '' if ok else 'no `ele_idx == 15` test')


def r8_format_keeps_values(ctx):
    """formatting writes every value the segment holds: Segment.format and Composite.format, decided by constant propagation
    on segments / composites whose positions are empty, blank or filled, print all positions up to the last one that is
    not EMPTY ('' - a blank is a value), always at least the first, in order, joined by the separator.  Reading the text
    again then yields the same values."""
    from ..absint import run_function, helper_oracles, NotClosedTest
    hfuncs = helper_oracles(ctx, 'segment', {'Element.__repr__': lambda x: x.v})

    class _C(object):
        _sa_model = True

        def __init__(self, v):
            self.v = self.value = v

        def format(self, st=None):
            return self.v

        def __repr__(self):
            return self.v

        def get_value(self):
            return self.v

        def is_empty(self):
            return self.v == ''

        def __hash__(self):
            return hash(('c', self.v, id(self)))

    def expected(vals, sep):
        i = 0
        for j in range(len(vals) - 1, -1, -1):
            if vals[j] != '':
                i = j
                break
        return sep.join(vals[:i + 1])
    CASES = (('A', 'B'), ('A', '', ''), ('A', ' '), ('A', '  ', ''), ('', ''), (), ('', 'B', ''), ('A', '', 'C', ' ', ''), (' ',), ('A', '', ' '))
    fn = ctx.func('segment', 'Segment.format')
    bad = []
    for vals in CASES:
        env = {'self.seg_id': 'REF', 'self.seg_term': '~', 'self.ele_term': '*', 'self.subele_term': ':',
               'self.elements': tuple(_C(v) for v in vals)}
        try:
            got = run_function(ctx.cfg(fn), fn, [None], hfuncs, env=env)
        except (NotClosedTest, A.NotClosed) as e:
            raise AnalysisError('Segment.format cannot be decided for the element values %s: %s' % (list(vals), e))
        want = 'REF*' + expected(list(vals), '*') + '~'
        if got != want:
            bad.append('elements %s are written as %r, not %r' % (list(vals), got, want))
    yield Ob('segment:Segment.format writes every element up to the last non-empty one', not bad, ctx.floc(fn),
             '' if not bad else bad[0] + ': a value is lost (or an empty position invented) when the segment is written')
    fn = ctx.func('segment', 'Composite.format')
    bad = []
    for vals in CASES:
        if not vals:
            continue      # (a composite always has at least one component)
        env = {'self.subele_term': ':', 'self.elements': tuple(_C(v) for v in vals)}
        try:
            got = run_function(ctx.cfg(fn), fn, [None], hfuncs, env=env)
        except (NotClosedTest, A.NotClosed) as e:
            raise AnalysisError('Composite.format cannot be decided for the component values %s: %s' % (list(vals), e))
        want = expected(list(vals), ':')
        if got != want:
            bad.append('components %s are written as %r, not %r' % (list(vals), got, want))
    yield Ob('segment:Composite.format writes every component up to the last non-empty one', not bad, ctx.floc(fn),
             '' if not bad else bad[0] + ': a value is lost (or an empty position invented) when the composite is written')


def r7_format_delimiters(ctx):
    """formatting puts each delimiter where parsing looks for it, decided by constant propagation through the two
    formatters with three distinct delimiter characters: Segment.format gives id + element separator + elements joined
    by the element separator + terminator, every element formatted with the component separator; Composite.format joins
    the components with the component separator; a delimiter that is not passed is the object's own of the same name."""
    from ..absint import run_function, helper_oracles, NotClosedTest
    hf = helper_oracles(ctx, 'segment')
    fn = ctx.func('segment', 'Segment.format')
    fc = ctx.func('segment', 'Composite.format')

    class _Comp(object):
        _sa_model = True

        def format(self, st=None):
            return 'v%sw' % st

        def is_empty(self):
            return False

    class _Ele(object):
        _sa_model = True

        def __init__(self, v):
            self.value = v

        def format(self):
            return self.value

        def get_value(self):
            return self.value

        def is_empty(self):
            return self.value == ''

        def __repr__(self):
            return self.value

    def run(f, args, env):
        try:
            return run_function(ctx.cfg(f), f, [None] + args, dict(hf, **{'Element.__repr__': lambda x: x.value}), env=env)
        except (NotClosedTest, A.NotClosed) as e:
            raise AnalysisError('%s cannot be decided: %s' % (f.name, e))
    own = {'self.seg_id': 'ID', 'self.elements': (_Comp(), _Comp()), 'self.seg_term': '!', 'self.ele_term': '|', 'self.subele_term': '>'}
    got = run(fn, ['~', '*', ':'], own)
    ok = got == 'ID*v:w*v:w~'
    yield Ob('segment:Segment.format = id, element separator, elements joined by it, terminator', ok, ctx.floc(fn),
             '' if ok else 'with the delimiters ~ * : a segment of two elements is formatted as %r, expected %r' % (got, 'ID*v:w*v:w~'))
    yield Ob('segment:Segment.format formats every element with the component separator', ok or (isinstance(got, str) and got.count('v:w') == 2), ctx.floc(fn),
             '' if ok else 'elements are rendered as %r' % (got,))
    cown = {'self.elements': (_Ele('a'), _Ele('b'), _Ele('')), 'self.subele_term': '>'}
    gotc = run(fc, [':'], cown)
    okc = gotc == 'a:b'
    yield Ob('segment:Composite.format joins the components with the component separator', okc, ctx.floc(fc),
             '' if okc else 'with : the components a, b, (empty) are formatted as %r' % (gotc,))
    # defaults: an omitted delimiter argument falls back to the object's own delimiter of the same name
    for nm, args, want in (('seg_term', [None, '*', ':'], 'ID*v:w*v:w!'), ('ele_term', ['~', None, ':'], 'ID|v:w|v:w~'), ('subele_term', ['~', '*', None], 'ID*v>w*v>w~')):
        g_ = run(fn, args, own)
        yield Ob("segment:Segment.format default for %s is the object's own %s" % (nm, nm), g_ == want, ctx.floc(fn),
                 '' if g_ == want else 'without %s the segment is formatted as %r, expected %r' % (nm, g_, want))
    g_ = run(fc, [None], cown)
    yield Ob("segment:Composite.format default for subele_term is the object's own subele_term", g_ == 'a>b', ctx.floc(fc),
             '' if g_ == 'a>b' else 'without subele_term the composite is formatted as %r, expected %r' % (g_, 'a>b'))


def r9_shared_int_total(ctx):
    """the reader yields every segment: the count conversions it runs while iterating (_int on HL01/02, IEA01, GE01, SE01) never raise, whatever the element holds or lacks (C04.R3, shared)"""
    from . import c04
    for o in c04.r3_int_total(ctx):
        yield o


def r10_shared_stack_safety(ctx):
    """reading yields every segment of the input: the envelope bookkeeping the reader runs per segment never raises on a
    stack of open loops that is empty (an orphan trailer), which would end the iteration in the middle of the input.
    C04.R2 (shared): typestate NonEmpty at every top-of-stack access of the reader classes."""
    from . import c04
    for o in c04.r2_stack_safety(ctx):
        yield o

def r11_reader_iteration(ctx):
    """X12Reader.__iter__ decided by constant propagation over a stream of tokens (plain, with leading blanks, ending in
    an element separator, blanks only, both): every token becomes exactly one Segment, in order, built from the token
    with only its leading blanks removed and with the header's three delimiters; a leading blank is reported as
    segment error 1 and trailing element separators as SEG1, each once, before the segment and with the line number of
    that segment (current line + 1); a plain token draws no error."""
    from ..absint import traces, helper_oracles, NotClosedTest
    fn = ctx.func('x12file', 'X12Reader.__iter__')
    g = ctx.cfg(fn)
    lines = ('REF*A', '  REF*B', 'REF*C*', '  ', ' X*', 'SE*1*2')
    funcs = helper_oracles(ctx, 'x12file', all_methods_of='X12Reader')

    def key(c):
        r, m = A.call_target(c)
        if m == 'Segment':
            return 'Segment'
        if (r, m) == ('self', '_seg_error'):
            return 'error'
        return None
    try:
        res = traces(g, {'self.raw': lines, 'self.seg_term': '~', 'self.ele_term': '*', 'self.subele_term': ':', 'self.cur_line': 10,
                         'self.err_list': ()}, key, funcs, with_keywords=True)
    except NotClosedTest as e:
        raise AnalysisError('X12Reader.__iter__ cannot be decided: %s' % e)
    want = []
    for ln in lines:
        if ln.startswith(' '):
            want.append(('error', '1', 11))
        st = ln.lstrip(' ')
        if st.endswith('*'):
            want.append(('error', 'SEG1', 11))
        want.append(('Segment', st, '~', '*', ':'))
    outs = set()
    for tr, _e in res:
        got = []
        for k_, a_ in tr:
            if k_ == 'Segment':
                got.append(('Segment',) + tuple(a_[:4]))
            else:
                pos = [x for x in a_ if not (isinstance(x, tuple) and len(x) == 2 and x[0] in ('src_line', 'err_value'))]
                kw = dict(x for x in a_ if isinstance(x, tuple) and len(x) == 2 and x[0] in ('src_line', 'err_value'))
                line_no = kw.get('src_line', pos[3] if len(pos) > 3 else None)
                got.append(('error', pos[0] if pos else None, line_no))
        outs.add(tuple(got))
    ok = outs == {tuple(want)}
    msg = ''
    if not ok:
        o_ = sorted(outs, key=repr)[0] if outs else ()
        d_ = next((i for i, (a_, b_) in enumerate(zip(o_, want)) if a_ != b_), min(len(o_), len(want)))
        msg = 'for the tokens %s step %d is %r, expected %r' % (list(lines), d_ + 1, o_[d_] if d_ < len(o_) else None, want[d_] if d_ < len(want) else None)
    yield Ob('x12file:X12Reader.__iter__ one Segment per token, leading blanks and trailing separators reported once with the segment line', ok, ctx.floc(fn), msg)


RULES = [
    Rule('C01.R1', 'literal open() modes valid on every supported interpreter; reader opens the path for text reading', r1_open_modes, floor=15),
    Rule('C01.R1b', 'source kind decided by constant propagation: stream used as it is (duck typed), path opened, "-" = stdin', r1b_source_kind, floor=1),
    Rule('C01.R2', 'ISA header offsets = offsets derived from dataele widths; version whitelist = control maps', r2_isa_offsets, floor=9),
    Rule('C01.R3', 'every tokenizer-loop exit is an end-of-stream exit; header read retries', r3_tokenizer_exits, floor=5),
    Rule('C01.R4', 'Segment delimiters come from the header; get_term tuple positions agree', r4_delimiter_provenance, floor=9),
    Rule('C01.R5', 'strip set in front of a token is exactly {CR, LF}', r5_strip_set, floor=1),
    Rule('C01.R6', 'ISA elements are never split at the component separator', r6_isa_not_subsplit, floor=2),
    Rule('C01.R9', 'shared with C04.R3: _int is total (no exception ends the iteration early)', r9_shared_int_total, floor=3),
    Rule('C01.R10', 'shared with C04.R2: top-of-stack accesses of the reader hold NonEmpty (no exception ends the iteration early)', r10_shared_stack_safety, floor=13),
    Rule('C01.R11', 'X12Reader.__iter__ decided over a token stream: one Segment per token, errors 1 / SEG1 exactly where due (constant propagation)', r11_reader_iteration, floor=1),
    Rule('C01.R8', 'Segment.format / Composite.format print every position up to the last non-empty one (blank is a value)', r8_format_keeps_values, floor=2),
    Rule('C01.R7', 'format puts each delimiter where the parser looks for it; defaults are the segment own delimiters', r7_format_delimiters, floor=5),
]
