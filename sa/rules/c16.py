"""C16 Shipped maps, index and code tables are consistent and fully addressable."""
import ast
import fnmatch
import os
import re

from ..core import Ob, Rule, AnalysisError, norm
from ..cfg import path_of
from .. import astutil as A
from . import datarules as D

META = {
    'explanation': (
        'F-DATA sweep over every node of every indexed map and the two control maps, modelled exactly as the '
        'map_if constructors read them (attribute first, child element second): R1 index entries name existing, '
        'well-formed map files with unambiguous keys that setup.py packages; R2 every data_ele / external code set '
        'reference resolves; R3 usages, pos, seq, repeat, max_use parse the way the constructors parse them and seq '
        'runs 1..n; R4 syntax notes are well formed and in range; R5 same-position siblings are distinguishable by '
        'the discriminator segment_if.is_match applies; R6 node paths (computed with the loader\'s qualifier-suffix '
        'rule) are unique and every loop/segment is found again by the modelled getnodebypath; R7 the two branches '
        'of every base_path test in the four loaders open the same file and share the code after the branch; R8 the '
        'field names the model reads are the field names the constructors read. R9 outside the constructors no method of a map '
        'node stores into the node except the two path caches filled by parameterless methods (a lookup that memoises on the node '
        'would make "fetch by path" depend on earlier fetches).'),
    'not_decided': 'nothing of substance; "same tree from both locations" is decided as R7 + packaging (R1) rather '
                   'than by loading twice',
    'trusted_base': ['sa/xmlmodel.py mirrors map_if constructors (cross-checked by R8)', 'xml.etree parser'],
    'assumptions': ['the element-level part of getnodebypath2 (ordinal lookup) is covered by R3 seq contiguity'],
}


META['explanation'] += ' Rounds 4-5: ' + 'R12 get_filename/get_abbr read every key field; the scan condition evaluated over maps.xml finds every entry by its own key. R13 loader suffix code interpreted over every map. R14 (= C17.R1/R5) every node path parses under the path grammar.'
META['technique'] = META.get('technique', 'static analysis: AST/CFG rules over /repo source + shipped XML data') + '; conditional constant propagation over the CFG on finite, complete input domains (DESIGN.md 10.4.1)'


def r1_index(ctx):
    ms = ctx.maps
    seen = {}
    by3 = {}
    for e in ms.index:
        k4 = (e['icvn'], e['vriic'], e['fic'], e['tspc'])
        key = 'maps.xml icvn=%s vriic=%s fic=%s tspc=%s' % k4
        w = 'pyx12/map/maps.xml'
        if k4 in seen:
            yield Ob(key + ' duplicate', False, w, 'index key appears twice (%s and %s)' % (seen[k4], e['file']))
        seen[k4] = e['file']
        by3.setdefault(k4[:3], []).append(e)
        m = ms.map(e['file']) if e['file'] else None
        if m is None:
            yield Ob(key + ' file', False, w, 'map file %r named by the index does not exist' % e['file'])
            continue
        ok = m.id is not None and m.type == 'transaction'
        yield Ob(key + ' file', ok, D.where(m), '' if ok else 'root element is <%s> xid=%r; loader needs xid' % (m.type, m.id))
    # get_filename(icvn, vriic, fic) without tspc returns the first of several: must be disambiguated by tspc
    bht = _bht_vriics(ctx)
    for k3, lst in by3.items():
        if len(lst) > 1:
            key = 'maps.xml shared 3-key icvn=%s vriic=%s fic=%s' % k3
            tspcs = [e['tspc'] for e in lst]
            ok = all(tspcs) and len(set(tspcs)) == len(tspcs)
            msg = '' if ok else 'entries share (icvn,vriic,fic) without distinct tspc: %s' % tspcs
            if ok:
                for site, vals in bht.items():
                    if k3[1] not in vals:
                        ok = False
                        msg = 'vriic %s needs the BHT02 second lookup but %s tests only %s' % (k3[1], site, sorted(vals))
            yield Ob(key, ok, 'pyx12/map/maps.xml', msg)
    # packaging: every xml file of the map directory is matched by setup.py package_data
    pats = _package_data_patterns(ctx)
    for f in ms.indexed_files() + ms.control_files() + ['maps.xml', 'dataele.xml', 'codes.xml']:
        ok = any(fnmatch.fnmatch('map/' + f, p) for p in pats)
        yield Ob('setup.py package_data covers map/%s' % f, ok, 'setup.py',
                 '' if ok else 'file is not matched by package_data patterns %s' % pats)


def _bht_vriics(ctx):
    """{site: set of vriic literals tested before the second (tspc) lookup}"""
    out = {}
    for modname, qual in (('x12n_document', 'x12n_document'), ('x12context', 'X12ContextReader.iter_segments')):
        fn = ctx.func(modname, qual)
        vals = None
        for n in ast.walk(fn):
            # (`vriic in (..)`: do the lookup, or `vriic not in (..)`: skip it; the name may carry a holder prefix)
            if isinstance(n, ast.Compare) and len(n.ops) == 1 and isinstance(n.ops[0], (ast.In, ast.NotIn)) \
                    and (path_of(n.left) or '').split('.')[-1].split('__')[-1] == 'vriic' and isinstance(n.comparators[0], (ast.Tuple, ast.List)):
                vals = {A.const(x) for x in n.comparators[0].elts}
        if vals is None:
            raise AnalysisError('%s:%s no longer tests `vriic in (...)` before the BHT02 lookup' % (modname, qual))
        out['%s:%s' % (modname, qual)] = vals
    return out


def _package_data_patterns(ctx):
    p = os.path.join(ctx.repo, 'setup.py')
    if not os.path.isfile(p):
        raise AnalysisError('setup.py vanished')
    ctx.consulted.add('setup.py')
    t = ast.parse(open(p).read())
    pats = []
    for n in ast.walk(t):
        if isinstance(n, ast.Dict):
            for k, v in zip(n.keys, n.values):
                if A.const(k) == 'pyx12' and isinstance(v, (ast.List, ast.Tuple)):
                    pats += [A.const(x) for x in v.elts if A.is_str(x)]
    # package_data may be assigned through a variable or keyword
    for n in ast.walk(t):
        if isinstance(n, ast.keyword) and n.arg == 'package_data' and isinstance(n.value, ast.Dict):
            for k, v in zip(n.value.keys, n.value.values):
                if isinstance(v, (ast.List, ast.Tuple)):
                    pats += [A.const(x) for x in v.elts if A.is_str(x)]
    if not pats:
        raise AnalysisError('setup.py: cannot find package_data patterns')
    return sorted(set(pats))


def r2_refs(ctx):
    ms = ctx.maps
    de = ms.dataele
    codes = ms.codes
    for n in D.all_nodes(ctx):
        if n.kind == 'element':
            ok = bool(n.data_ele) and n.data_ele in de
            yield Ob('%s data_ele=%s' % (D.nodekey(n), n.data_ele), ok, D.where(n),
                     '' if ok else 'data element %r is not defined in dataele.xml (get_by_elem_num raises EngineError)' % n.data_ele)
            if n.external is not None:
                ok = n.external != '' and n.external in codes
                yield Ob('%s external=%s' % (D.nodekey(n), n.external), ok, D.where(n),
                         '' if ok else 'external code set %r is not defined in codes.xml (isValid raises EngineError)' % n.external)
    for num, d in sorted(de.items()):
        ok = d['min_len'] is not None and d['max_len'] is not None and d['min_len'] <= d['max_len'] \
            and d['min_len'] >= 0 and bool(d['data_type'])
        yield Ob('dataele.xml ele_num=%s' % num, ok, 'pyx12/map/dataele.xml',
                 '' if ok else 'min_len=%r max_len=%r data_type=%r' % (d['min_raw'], d['max_raw'], d['data_type']),
                 nontrivial=True)


_REPEAT_OK = re.compile(r'^(>1|&gt;1|[0-9]+)$')


def r3_fields(ctx):
    for n in D.all_nodes(ctx):
        if n.kind == 'map':
            continue
        k = D.nodekey(n)
        probs = []
        if n.usage not in ('R', 'S', 'N'):
            probs.append('usage=%r not in R/S/N' % n.usage)
        if n.kind in ('loop', 'segment'):
            if n.pos is None:
                probs.append('pos=%r does not parse as int (constructor raises)' % n.pos_raw)
            if n.kind == 'loop' and n.repeat is not None and not _REPEAT_OK.match(n.repeat):
                probs.append('repeat=%r: get_max_repeat int() fails' % n.repeat)
            if n.kind == 'segment' and n.max_use is not None and not _REPEAT_OK.match(n.max_use.replace('&gt;', '>')):
                probs.append('max_use=%r: get_max_repeat int() fails' % n.max_use)
            if n.kind == 'segment':
                seqs = [c.seq for c in n.children]
                if isinstance(n.type, tuple):
                    probs.append('duplicate seq %s among children (one is silently dropped)' % (n.type[1],))
                if seqs != list(range(1, len(seqs) + 1)):
                    probs.append('children seq %s is not 1..%d (get_child_node_by_idx raises)' % (seqs, len(seqs)))
                if not n.children:
                    probs.append('segment has no elements (is_match indexes children[0])')
        if n.kind == 'composite':
            if n.seq is None:
                probs.append('seq=%r' % n.seq_raw)
            seqs = [c.seq for c in n.children]
            if seqs != list(range(1, len(seqs) + 1)):
                probs.append('sub-element seq %s is not 1..n in document order (children are not sorted)' % seqs)
            if n.repeat is not None and not n.repeat.isdigit():
                probs.append('repeat=%r int() fails' % n.repeat)
            if not n.children and n.usage != 'N':
                probs.append('used composite has no sub-elements')
        if n.kind == 'element' and n.seq is None:
            probs.append('seq=%r' % n.seq_raw)
        if n.kind == 'element' and n.regex:
            try:
                re.compile(n.regex, re.S)
            except re.error as e:
                probs.append('regex %r does not compile: %s' % (n.regex, e))
        yield Ob(k + ' fields', not probs, D.where(n), '; '.join(probs))


def r4_syntax(ctx):
    return D.syntax_note_obs(ctx)


def r5_siblings(ctx):
    ms = ctx.maps
    for n in D.all_nodes(ctx):
        if n.kind not in ('map', 'loop'):
            continue
        bypos = {}
        for c in n.children:
            bypos.setdefault(c.pos, []).append(c)
        for pos, lst in sorted(bypos.items(), key=lambda x: (x[0] is None, x[0])):
            if len(lst) < 2:
                continue
            segs = [c for c in lst if c.kind == 'segment']
            byid = {}
            for s in segs:
                byid.setdefault(s.id, []).append(s)
            for sid, group in sorted(byid.items()):
                if len(group) < 2:
                    continue
                keys = [ms.match_key(s) for s in group]
                for i in range(len(group)):
                    for j in range(i + 1, len(group)):
                        a, b = keys[i], keys[j]
                        k = '%s:%s pos=%s %s siblings #%d/#%d' % (n.file, n.get_path(), group[i].pos_raw, sid, i + 1, j + 1)
                        if a is None or b is None:
                            yield Ob(k, False, D.where(n), 'two %s nodes at one position and one has no qualifier '
                                     'code list, so is_match cannot tell them apart' % sid)
                        elif a[0] != b[0]:
                            yield Ob(k, True, D.where(n), note='different key elements %s/%s' % (a[0], b[0]))
                        else:
                            common = sorted(a[1] & b[1])
                            yield Ob(k, not common, D.where(n),
                                     '' if not common else 'both accept qualifier(s) %s in %s%s: the second node is unreachable for them'
                                     % (common, sid, a[0]))


def r6_paths(ctx):
    ms = ctx.maps
    for f in D.scope_files(ctx):
        m = ms.map(f)
        if m is None:
            continue
        seen = {}
        for n in m.walk():
            if n.kind not in ('loop', 'segment'):
                continue
            p = n.get_path()
            k = '%s:%s' % (f, p)
            if p in seen:
                yield Ob(k + ' unique', False, D.where(n), 'two nodes report the path %s' % p)
                continue
            seen[p] = n
            got = ms.getnodebypath(m, p)
            ok = got is n
            yield Ob(k + ' lookup', ok, D.where(n),
                     '' if ok else 'getnodebypath(%r) returns %s instead of the node itself'
                     % (p, 'nothing (EngineError)' if got is None else 'another node at pos %s' % got.pos_raw))
        # element ids: unique within their segment, refdes shape
        for n in m.walk():
            if n.kind == 'segment':
                ids = [c.id for c in n.children]
                for c in n.children:
                    if c.kind == 'composite':
                        ids += [x.id for x in c.children]
                ids = [i for i in ids if i is not None]
                dup = sorted({i for i in ids if ids.count(i) > 1})
                if dup:
                    yield Ob('%s element ids' % D.nodekey(n), False, D.where(n), 'duplicate element ids %s' % dup)


LOADERS = (('map_if', 'load_map_file', 'map_path'), ('map_index', 'map_index.__init__', 'base_path'),
           ('dataele', 'DataElements.__init__', 'base_path'), ('codes', 'ExternalCodes.__init__', 'base_path'))


def r7_loader_branches(ctx):
    for modname, qual, pvar in LOADERS:
        fn = ctx.func(modname, qual)
        key = '%s:%s' % (modname, qual)
        branch = None
        cands = [s for s in fn.body if isinstance(s, ast.If) and any(path_of(x) == pvar for x in ast.walk(s.test)) and s.orelse]
        # the branch that opens the stream (an earlier one may only word a log message)
        opening = [s for s in cands if any(A.call_target(c)[1] in ('open', 'resource_stream') for c in A.calls_in(s))]
        branch = opening[0] if opening else (cands[0] if cands else None)
        if branch is None:
            raise AnalysisError('%s: branch on %s not found' % (key, pvar))
        # names assigned in both branches must be the same set (the stream variable)
        def assigned(stmts):
            out = {}
            for st in stmts:
                for n in ast.walk(st):
                    if isinstance(n, ast.Assign) and len(n.targets) == 1 and isinstance(n.targets[0], ast.Name):
                        out[n.targets[0].id] = n.value
            return out
        try:
            path_first = bool(A.ev(branch.test, {pvar: '/some/dir'}))
        except A.NotClosed as e:
            raise AnalysisError('%s: branch test on %s not closed: %s' % (key, pvar, e))
        a, b = (assigned(branch.body), assigned(branch.orelse)) if path_first else (assigned(branch.orelse), assigned(branch.body))
        ok = set(a) == set(b) and len(a) == 1
        yield Ob(key + ' both branches bind the same stream', ok, ctx.floc(fn, branch),
                 '' if ok else 'path branch binds %s, resource branch binds %s' % (sorted(a), sorted(b)))
        if not ok:
            continue
        var = list(a)[0]
        # file name expression: last argument of os.path.join in both branches must be the same expression
        def fname_expr(v):
            for n in ast.walk(v):
                if isinstance(n, ast.Call) and isinstance(n.func, ast.Attribute) and n.func.attr == 'join' and n.args:
                    return n.args[-1], n.args[:-1]
            return None, None
        fa, pa = fname_expr(a[var])
        fb, pb = fname_expr(b[var])
        ok = fa is not None and fb is not None and ast.dump(fa) == ast.dump(fb)
        yield Ob(key + ' same file name in both branches', ok, ctx.floc(fn, branch),
                 '' if ok else 'path branch opens %s, resource branch opens %s' % (norm(fa) if fa else '?', norm(fb) if fb else '?'))
        okp = pa is not None and len(pa) == 1 and path_of(pa[0]) == pvar
        yield Ob(key + ' path branch joins the given directory', okp, ctx.floc(fn, branch),
                 '' if okp else 'first join argument is %s, expected %s' % ([norm(x) for x in (pa or [])], pvar))
        okr = pb is not None and len(pb) == 1 and A.const(pb[0]) == 'map'
        yield Ob(key + " resource branch joins 'map'", okr, ctx.floc(fn, branch),
                 '' if okr else 'resource branch joins %s' % [norm(x) for x in (pb or [])])
        # after the branch nothing may depend on the branch variable again except forwarding it
        idx = fn.body.index(branch)
        uses = []
        for st in fn.body[idx + 1:]:
            for n in ast.walk(st):
                if isinstance(n, ast.Name) and n.id == pvar:
                    par = A.parent(n)
                    if isinstance(par, ast.Call) and n in par.args:
                        continue  # forwarded as an argument
                    uses.append(n)
        yield Ob(key + ' code after the branch is branch-independent', not uses, ctx.floc(fn, branch),
                 '' if not uses else '%s is tested again at line(s) %s' % (pvar, sorted({u.lineno for u in uses})))
    # map_if.__init__ forwards base_path to both table loaders
    fn = ctx.func('map_if', 'map_if.__init__')
    for cls in ('ExternalCodes', 'DataElements'):
        found = False
        for c in A.calls_in(fn):
            r, m = A.call_target(c)
            if m == cls:
                found = bool(c.args) and path_of(c.args[0]) == 'base_path'
        yield Ob('map_if:map_if.__init__ forwards base_path to %s' % cls, found, ctx.floc(fn),
                 '' if found else '%s is not constructed with base_path as first argument' % cls)
    # load_map_file passes map_path on to map_if(...)
    fn = ctx.func('map_if', 'load_map_file')
    found = False
    for c in A.calls_in(fn):
        r, m = A.call_target(c)
        if m == 'map_if' and r is None:
            found = len(c.args) >= 3 and path_of(c.args[2]) == 'map_path'
    yield Ob('map_if:load_map_file forwards map_path to map_if()', found, ctx.floc(fn),
             '' if found else 'map_if(...) is not given map_path as third argument')


def r8_model_fields(ctx):
    from .. import xmlmodel
    for cls, fields in sorted(xmlmodel.MODEL_FIELDS.items()):
        got = D.loader_fields(ctx, cls)
        if cls == 'element_if':
            got = got | {'regex'} if any(True for _ in [1]) else got
        missing = sorted(got - fields - {'code'})
        extra = sorted(fields - got - {'seq'})
        ok = not missing and not extra
        yield Ob('map_if:%s.__init__ fields' % cls, ok, 'pyx12/map_if.py',
                 '' if ok else 'constructor reads %s that the model ignores; model reads %s the constructor does not'
                 % (missing, extra))
        # accessor shape: attribute first, child element second
        fn = ctx.func('map_if', cls + '.__init__')
        bad = []
        for n in ast.walk(fn):
            if isinstance(n, ast.IfExp):
                t = n.test
                if isinstance(t, ast.Call) and isinstance(t.func, ast.Attribute) and t.func.attr == 'get' and t.args \
                        and A.is_str(t.args[0]):
                    name = t.args[0].value
                    body_names = {A.const(c.args[0]) for c in A.calls_in(n.body) if isinstance(c.func, ast.Attribute)
                                  and c.func.attr == 'get' and c.args}
                    else_names = {A.const(c.args[0]) for c in A.calls_in(n.orelse) if isinstance(c.func, ast.Attribute)
                                  and c.func.attr in ('findtext', 'get') and c.args}
                    if body_names != {name} or (else_names and else_names != {name}):
                        bad.append((name, sorted(body_names), sorted(else_names)))
        yield Ob('map_if:%s.__init__ accessor pairs' % cls, not bad, 'pyx12/map_if.py',
                 '' if not bad else 'attribute/child-element accessor reads different names: %s' % bad)


MAP_CLASSES = ('x12_node', 'map_if', 'loop_if', 'segment_if', 'element_if', 'composite_if')
# caches of values that depend on the node alone (filled by a method without parameters)
NODE_CACHES = {'_fullpath', '_x12path'}


def r9_nodes_immutable(ctx):
    """a loaded map is read-only: outside the constructors no method of a map node stores into the node, except the two
    path caches, which are filled by parameterless methods (so the cached value cannot depend on an argument).
    A lookup that memoises on the node makes later lookups depend on earlier ones."""
    n = 0
    for cname in MAP_CLASSES:
        cls = ctx.cls('map_if', cname)
        for f in cls.body:
            if not isinstance(f, ast.FunctionDef) or f.name == '__init__':
                continue
            # methods that raise before doing anything (deprecated counters) are dead code
            first = [st for st in f.body if not (isinstance(st, ast.Expr) and isinstance(st.value, ast.Constant))][:1]
            if first and isinstance(first[0], ast.Raise):
                continue
            params = [a.arg for a in f.args.args][1:]
            for st in ast.walk(f):
                tg = st.targets if isinstance(st, ast.Assign) else [st.target] if isinstance(st, ast.AugAssign) else []
                for t in tg:
                    for tt in ([t] if not isinstance(t, ast.Tuple) else t.elts):
                        base = tt
                        while isinstance(base, ast.Subscript):
                            base = base.value
                        p_ = path_of(base)
                        if p_ and p_.startswith('self.'):
                            attr = p_.split('.')[1]
                            n += 1
                            ok = attr in NODE_CACHES and not params
                            yield Ob('map_if:%s.%s stores self.%s' % (cname, f.name, attr), ok, ctx.loc('map_if', st),
                                     '' if ok else 'a method%s stores into the loaded map node (self.%s): the result of later calls then depends on earlier calls'
                                     % (' with parameters %s' % params if params else '', attr))
            for c in A.calls_in(f):
                r, m = A.call_target(c)
                if r and r.startswith('self.') and m in ('append', 'extend', 'insert', 'pop', 'remove', 'clear', 'update', 'setdefault', 'sort'):
                    n += 1
                    yield Ob('map_if:%s.%s mutates %s' % (cname, f.name, r), False, ctx.loc('map_if', c), 'a method mutates the loaded map node in place')
    if n < 3:
        raise AnalysisError('map node store audit found only %d stores' % n)


def r10_loaders_keep_every_entry(ctx):
    """the data rules above read codes.xml, dataele.xml and maps.xml completely; they speak for the running code only if
    its loaders do the same: in each loader loop the store into the table is executed in EVERY iteration (no skip of
    an entry that lacks an optional child, no early exit), keyed by the entry's own id"""
    from ..cfg import skips_in_iteration
    specs = [('codes', 'ExternalCodes.__init__', 'codeset', 'self.codes', 'id'),
             ('dataele', 'DataElements.__init__', 'data_ele', 'self.dataele', 'ele_num'),
             ('map_index', 'map_index.__init__', 'map', None, None)]
    for mod, qual, tag, table, keyname in specs:
        fn = ctx.func(mod, qual)
        g = ctx.cfg(fn)
        loops = [n for n in ast.walk(fn) if isinstance(n, ast.For) and isinstance(n.iter, ast.Call) and n.iter.args
                 and A.const(n.iter.args[0]) is not None and str(A.const(n.iter.args[0])).split('/')[-1] == tag
                 and A.call_target(n.iter)[1] in ('iter', 'iterfind', 'findall')]
        if len(loops) != 1:
            raise AnalysisError('%s:%s: loop over <%s> entries not found' % (mod, qual, tag))
        lp = loops[0]

        def stores(nd):
            for x in g.walk_exprs(nd):
                if table and isinstance(x, ast.Subscript) and isinstance(x.ctx, ast.Store) and path_of(x.value) == table:
                    return True
                if not table and isinstance(x, ast.Call) and A.call_target(x) in (('self', 'add_map'), ('self.maps', 'append')):
                    return True
            return False
        if not any(stores(nd) for nd in g.nodes):
            raise AnalysisError('%s:%s: store into the table not found' % (mod, qual))
        skip = skips_in_iteration(g, lp, stores)
        yield Ob('%s:%s every <%s> entry is stored' % (mod, qual, tag), skip is None, ctx.floc(fn, lp),
                 '' if skip is None else 'an iteration can end without storing the entry (through line %s): what the XML defines '
                 'is then undefined for the validator' % [n.lineno for n in skip if n.lineno][-2:-1])
        if table:
            keys = [x for nd in g.nodes for x in g.walk_exprs(nd) if isinstance(x, ast.Subscript) and isinstance(x.ctx, ast.Store) and path_of(x.value) == table]
            k = keys[0].slice
            if isinstance(k, ast.Name):
                defs = [s_.value for s_ in ast.walk(lp) if isinstance(s_, ast.Assign) and path_of(s_.targets[0]) == k.id]
                k = defs[0] if len(defs) == 1 else k
            ok = isinstance(k, ast.Call) and A.call_target(k)[1] in ('findtext', 'get') and k.args and A.const(k.args[0]) == keyname \
                and path_of(k.func.value) == path_of(lp.target)
            yield Ob('%s:%s entries are keyed by their own %s' % (mod, qual, keyname), ok, ctx.floc(fn, keys[0]), '' if ok else 'key is %s' % norm(keys[0].slice))


class _PathM(object):
    """model of path.X12Path for the lookup rule (the class itself is decided by C17.R1-R3): loops, then an optional
    designator SEG[QUAL]NN-C"""
    _sa_model = True

    def __init__(self, text):
        import re as _re
        self.relative = not text.startswith('/')
        items = [x for x in text.strip('/').split('/')] if text.strip('/') else []
        self.seg_id = self.id_val = self.ele_idx = self.subele_idx = None
        if items:
            m = _re.match(r'^([A-Z][A-Z0-9]{1,2})?(\[([A-Z0-9]+)\])?([0-9]{2})?(-([0-9]+))?$', items[-1])
            if m and (m.group(1) or m.group(4)):
                items.pop()
                self.seg_id, self.id_val = m.group(1), m.group(3)
                self.ele_idx = int(m.group(4)) if m.group(4) else None
                self.subele_idx = int(m.group(6)) if m.group(6) else None
        self.loop_list = list(items)

    def empty(self):
        return not self.loop_list and self.seg_id is None and self.ele_idx is None

    def format(self):
        rd = (self.seg_id or '') + ('[%s]' % self.id_val if self.id_val and self.seg_id else '') + ('%02d' % self.ele_idx if self.ele_idx else '') \
            + ('-%d' % self.subele_idx if self.subele_idx and self.ele_idx else '')
        return ('' if self.relative else '/') + '/'.join(self.loop_list + ([rd] if rd else []))


class _ChildM(object):
    _sa_model = True

    def __init__(self, kind, id, quals=()):
        self.kind, self.id, self.quals = kind, id, quals

    def is_loop(self):
        return self.kind == 'loop'

    def is_segment(self):
        return self.kind == 'seg'

    def getnodebypath(self, rest):
        return ('descend', self.id, self.quals, rest)

    def getnodebypath2(self, rest):
        return ('descend', self.id, self.quals, rest)

    def get_unique_key_id_element(self, idv):
        return 'ele' if idv in self.quals else None

    def __repr__(self):
        return '%s %s%s' % (self.kind, self.id, list(self.quals) if self.quals else '')


def r15_lookup_semantics(ctx):
    """both path lookups of a loop, decided by constant propagation on a model loop whose positions hold: a single
    segment, a loop AND a segment at the same position, two same-id segments told apart by qualifier, a loop alone.
    Every child of every position is a candidate: a segment is found whatever shares its position, a loop id continues
    in that loop with the rest of the path, a qualifier picks the sibling that owns it, an unknown name is an
    EngineError (never a wrong node)."""
    from ..absint import run_function, helper_oracles, NotClosedTest
    hf = helper_oracles(ctx, 'map_if')
    A_, L1, B_, C1, C2, L2 = (_ChildM('seg', 'AAA'), _ChildM('loop', 'HEADER'), _ChildM('seg', 'BBB'), _ChildM('seg', 'CCC', ('Q1',)),
                              _ChildM('seg', 'CCC', ('Q2', 'Q3')), _ChildM('loop', '2000'))
    pos_map = A.FrozenDict({10: (A_,), 20: (L1, B_), 30: (C1, C2), 40: (L2,)})
    for meth in ('getnodebypath', 'getnodebypath2'):
        fn = ctx.func('map_if', 'loop_if.' + meth)
        new = meth.endswith('2')
        # (path, expected): a child itself, ('descend', child, rest) or 'EngineError'
        cases = [('AAA', A_), ('BBB', B_), ('HEADER', L1), ('2000', L2), ('header', L1), ('CCC[Q1]', C1), ('CCC[Q3]', C2), ('CCC[ZZ]', 'EngineError'),
                 ('ZZZ', 'EngineError'), ('HEADER/NM1', ('descend', L1, 'NM1')), ('2000/2300/CLM', ('descend', L2, '2300/CLM')), ('9999/NM1', 'EngineError')]
        if new:
            cases += [('BBB02', B_), ('CCC[Q2]03-1', C2)]
        bad = []
        for text, want in cases:
            try:
                ordered = tuple(c for k in sorted(pos_map) for c in pos_map[k])
                got = run_function(ctx.cfg(fn), fn, [None, text], dict(hf, **{'path.X12Path': _PathM, 'pyx12.path.X12Path': _PathM, 'X12Path': _PathM,
                                                                             'self.childIterator': lambda: ordered}),
                                   env={'self.pos_map': pos_map})
            except (NotClosedTest, A.NotClosed) as e:
                raise AnalysisError('loop_if.%s cannot be decided for %r: %s' % (meth, text, e))
            if isinstance(got, tuple) and got[:1] == ('descend',):
                child = [c for c in (A_, L1, B_, C1, C2, L2) if c.id == got[1] and c.quals == got[2]][0]
                if child.kind == 'seg' and new:
                    got = child        # the segment continues with its own designator: the segment is what was found
                else:
                    got = ('descend', child, got[3])
            if isinstance(got, tuple) and got[:1] == ('raises',):
                got = got[1]
            if got != want and not (got is want):
                bad.append('%r finds %s, expected %s' % (text, got, want))
        yield Ob('map_if:loop_if.%s finds every child by its own name, whatever shares its position' % meth, not bad, ctx.floc(fn),
                 '' if not bad else '; '.join(bad[:3]), note='%d paths' % len(cases))


def r11_designator_levels(ctx):
    """a component is fetched by the designator it reports: segment_if.getnodebypath2 looks the element up by the
    element index of the path and, in the element found, the component by the component index - each level with its
    own part of the path"""
    fn = ctx.func('map_if', 'segment_if.getnodebypath2')
    calls = [c for c in A.calls_in(fn) if A.call_target(c)[1] in ('get_child_node_by_ordinal', 'get_child_node_by_idx') and c.args]
    if len(calls) < 2:
        raise AnalysisError('segment_if.getnodebypath2: the two child lookups were not found')
    first = [c for c in calls if A.call_target(c)[0] == 'self']
    second = [c for c in calls if A.call_target(c)[0] != 'self']
    ok1 = len(first) == 1 and norm(first[0].args[0]).endswith('.ele_idx') or (len(first) == 1 and '.ele_idx' in norm(first[0].args[0]) and 'subele' not in norm(first[0].args[0]))
    yield Ob('map_if:segment_if.getnodebypath2 element looked up by the element index', bool(ok1), ctx.floc(fn, first[0] if first else fn),
             '' if ok1 else 'first lookup uses %s' % [norm(c.args[0]) for c in first])
    ok2 = len(second) == 1 and 'subele_idx' in norm(second[0].args[0])
    yield Ob('map_if:segment_if.getnodebypath2 component looked up by the component index', ok2, ctx.floc(fn, second[0] if second else fn),
             '' if ok2 else 'the lookup inside the element uses `%s`: the component fetched is not the one the path names' % [norm(c.args[0]) for c in second])


class _NV(object):
    """view of a model node with the interface the loader code uses on a map node (for interpretation of that code)"""
    _sa_model = True

    def __init__(self, ms, n, fns):
        self._ms, self._n, self._fns = ms, n, fns
        self.id = n.id
        self.usage = n.usage
        self.pos = n.pos
        self.path = n.id
        self.valid_codes = tuple(n.codes)
        self.children = tuple(_NV(ms, c, fns) for c in (n.children if n.kind in ('segment', 'composite') else ()))
        self.pos_map = {}
        if n.kind in ('loop', 'map'):
            for c in n.children:
                self.pos_map.setdefault(c.pos, ())
                self.pos_map[c.pos] += (_NV(ms, c, fns),)

    def is_segment(self):
        return self._n.kind == 'segment'

    def is_loop(self):
        return self._n.kind == 'loop'

    def is_element(self):
        return self._n.kind == 'element'

    def is_composite(self):
        return self._n.kind == 'composite'

    def is_map_root(self):
        return self._n.kind == 'map'

    def get_data_type(self):
        return self._ms.dtype(self._n)

    def __getattr__(self, name):
        # any other method of the node's class is interpreted from its source (helpers a refactoring introduced included)
        if name.startswith('__'):
            raise AttributeError(name)
        fdef = self._fns.get((self._n.kind, name))
        if fdef is None:
            raise AttributeError(name)
        view = self

        def call(*args):
            params = [a.arg for a in fdef.args.args][1:]
            if len(args) > len(params) or fdef.args.vararg or fdef.args.kwarg:
                raise A.NotClosed('call of ' + name)
            env = {'self': view}
            defaults = fdef.args.defaults
            for i, p_ in enumerate(params):
                if i < len(args):
                    env[p_] = args[i]
                else:
                    k = i - (len(params) - len(defaults))
                    if k < 0:
                        raise A.NotClosed('call of ' + name)
                    env[p_] = A.ev(defaults[k], {})
            if any(isinstance(x, (ast.Yield, ast.YieldFrom)) for x in ast.walk(fdef)):
                ys = []
                _interp(fdef.body, env, [], ys)
                return tuple(ys)
            return _interp(fdef.body, env, [])[1]
        return call


def _interp(stmts, env, effects, yields=None):
    """execute straight-line loader code over model views: if / for over a closed iterable / local assignment /
    attribute store (recorded in `effects`) / return.  Anything else raises NotClosed."""
    for st in stmts:
        if isinstance(st, ast.Expr) and isinstance(st.value, ast.Constant):
            continue
        if isinstance(st, ast.Pass):
            continue
        if isinstance(st, ast.Expr) and isinstance(st.value, ast.Yield) and yields is not None:
            yields.append(A.ev(st.value.value, env) if st.value.value is not None else None)
            continue
        if isinstance(st, ast.If):
            r = _interp(st.body if A.ev(st.test, env) else st.orelse, env, effects, yields)
            if r[0] != 'next':
                return r
        elif isinstance(st, ast.Return):
            return 'ret', (A.ev(st.value, env) if st.value is not None else None)
        elif isinstance(st, ast.Continue):
            return 'continue', None
        elif isinstance(st, ast.For) and isinstance(st.target, ast.Name) and not st.orelse:
            it = A.ev(st.iter, env)
            if not isinstance(it, (tuple, list)):
                raise A.NotClosed('iterable')
            for item in it:
                env[st.target.id] = item
                r = _interp(st.body, env, effects, yields)
                if r[0] == 'ret':
                    return r
        elif isinstance(st, ast.Assign) and len(st.targets) == 1 and isinstance(st.targets[0], ast.Name):
            env[st.targets[0].id] = A.ev(st.value, env)
        elif isinstance(st, ast.Assign) and len(st.targets) == 1 and isinstance(st.targets[0], ast.Attribute):
            obj = A.ev(st.targets[0].value, env)
            val = A.ev(st.value, env)
            effects.append((obj, st.targets[0].attr, val))
            if getattr(obj, '_sa_model', False):
                setattr(obj, st.targets[0].attr, val)
        elif isinstance(st, ast.AugAssign) and isinstance(st.target, ast.Attribute) and isinstance(st.op, ast.Add):
            obj = A.ev(st.target.value, env)
            val = getattr(obj, st.target.attr) + A.ev(st.value, env)
            effects.append((obj, st.target.attr, val))
            setattr(obj, st.target.attr, val)
        else:
            raise A.NotClosed('statement ' + norm(st, 60))
    return 'next', None


def r13_suffix_code_over_data(ctx):
    """R5/R6 (and the walker's per-path counters, C02) work on node paths computed with the qualifier suffix the way the
    model computes it.  That speaks for the running code only if loop_if.__init__ puts the same suffix on the same
    nodes: its suffix loop and segment_if.guess_unique_key_id_element are interpreted here over every loop of every
    shipped map, and the path of every same-position segment compared with the model's."""
    fn = ctx.func('map_if', 'loop_if.__init__')
    guess = ctx.func('map_if', 'segment_if.guess_unique_key_id_element')
    tail = [st for st in fn.body if isinstance(st, ast.For) and any(
        isinstance(x, (ast.Assign, ast.AugAssign)) and isinstance((x.targets[0] if isinstance(x, ast.Assign) else x.target), ast.Attribute)
        and (x.targets[0] if isinstance(x, ast.Assign) else x.target).attr == 'path' for x in ast.walk(st))]
    if len(tail) != 1:
        raise AnalysisError('loop_if.__init__: the loop that makes same-position segment paths unique was not found')
    ms = ctx.maps
    fns = {}
    for kind, cname in (('segment', 'segment_if'), ('loop', 'loop_if'), ('element', 'element_if'), ('composite', 'composite_if')):
        for base in ('x12_node', cname):
            for f_ in ctx.cls('map_if', base).body:
                if isinstance(f_, ast.FunctionDef) and f_.name not in ('__init__', 'is_segment', 'is_loop', 'is_element', 'is_composite',
                                                                        'is_map_root', 'get_data_type'):
                    fns[(kind, f_.name)] = f_
    n_groups = 0
    for f in D.scope_files(ctx):
        m = ms.map(f)
        if m is None:
            continue
        for lp in m.walk():
            if lp.kind != 'loop':
                continue
            bypos = {}
            for c in lp.children:
                bypos.setdefault(c.pos, []).append(c)
            if not any(len(v) > 1 for v in bypos.values()):
                continue
            view = _NV(ms, lp, fns)
            try:
                _interp(tail, {'self': view}, [])
            except A.NotClosed as e:
                raise AnalysisError('loop_if.__init__: the path-suffix code cannot be interpreted over the map data (%s)' % e)
            except (IndexError, TypeError, AttributeError, KeyError) as e:
                yield Ob('%s path suffixes as the loader computes them' % D.nodekey(lp), False, D.where(lp),
                         'the loader code raises %s: %s on this loop' % (type(e).__name__, e))
                continue
            bad = []
            for pos, views in view.pos_map.items():
                for v in views:
                    if v._n.kind == 'segment' and len(views) > 1:
                        n_groups += 1
                        if v.path != v._n.path_component():
                            bad.append((v._n.path_component(), v.path))
            yield Ob('%s path suffixes as the loader computes them' % D.nodekey(lp), not bad, D.where(lp),
                     '' if not bad else 'loop_if.__init__ gives the same-position segment %s the path component %s: segments that share '
                     'id and position then share one path (one counter in the walker, not found again by its own path)' % bad[0])
    if n_groups < 400:
        raise AnalysisError('only %d same-position segments interpreted' % n_groups)


def r14_paths_parse(ctx):
    """a node can only be fetched again by the path it reports if that path parses into its own parts: the path grammar
    (C17.R1) covers every qualifier and index the loader writes, and every node path of every map parses back into
    the node's segment id, qualifier and index (C17.R5) - shared"""
    from . import c17
    for fn in (c17.r1_languages, c17.r5_map_paths):
        for o in fn(ctx):
            yield o


def r12_lookup_by_own_key(ctx):
    """the index is only unambiguous if the lookup uses the whole key: get_filename / get_abbr read every key field they
    are given (a parameter that is never read cannot separate the entries that differ in it - and the index has such
    entries), and where the lookup is the scan `for a in self.maps: if <cond>: return a[..]` the condition is evaluated
    over the real index: asking for an entry by its own (icvn, vriic, fic, tspc) returns that entry"""
    ents = ctx.maps.index
    fields = ('icvn', 'vriic', 'fic', 'tspc')
    afn = ctx.func('map_index', 'map_index.add_map')
    for qual, want in (('map_index.get_filename', 'file'), ('map_index.get_abbr', None)):
        fn = ctx.func('map_index', qual)
        params = [a.arg for a in fn.args.args][1:]
        if params[:4] != list(fields):
            raise AnalysisError('%s: parameters %s' % (qual, params))
        used = {x.id for x in ast.walk(fn) if isinstance(x, ast.Name) and isinstance(x.ctx, ast.Load)}
        for k in fields:
            # entries that differ only in this field
            others = [f_ for f_ in fields if f_ != k]
            groups = {}
            for e in ents:
                groups.setdefault(tuple(e[o] for o in others), set()).add(e[k])
            witness = [g_ for g_, vals in groups.items() if len(vals) > 1]
            ok = k in used or not witness
            yield Ob('map_index:%s reads the key field %s' % (qual, k), ok, ctx.floc(fn),
                     '' if ok else 'the parameter %s is never read, but %d group(s) of index entries differ only in %s (e.g. %s): '
                     'one of them answers for the others' % (k, len(witness), k, dict(zip(others, witness[0]))))
        scans = [n for n in fn.body if isinstance(n, ast.For) and path_of(n.iter) == 'self.maps' and isinstance(n.target, ast.Name)
                 and len(n.body) == 1 and isinstance(n.body[0], ast.If) and len(n.body[0].body) == 1 and isinstance(n.body[0].body[0], ast.Return)]
        if len(scans) != 1 or want is None:
            continue
        # field names under which add_map stores what the index gives
        stored = [d for d in ast.walk(afn) if isinstance(d, ast.Dict)]
        if len(stored) != 1:
            continue
        names = {A.const(k_): path_of(v_) for k_, v_ in zip(stored[0].keys, stored[0].values)}
        var = scans[0].target.id
        cond = scans[0].body[0].test
        ret = scans[0].body[0].body[0].value
        rows = [{nm: (e['file'] if src == 'map_file' else e.get(src)) for nm, src in names.items()} for e in ents]
        bad = None
        try:
            for e, row in zip(ents, rows):
                got = None
                for r_ in rows:
                    env = {var: r_}
                    env.update({k: e[k] for k in fields})
                    if A.ev(cond, env):
                        got = A.ev(ret, env)
                        break
                if got != e['file'] and bad is None:
                    bad = (e, got)
        except (A.NotClosed, KeyError, TypeError) as ex:
            raise AnalysisError('%s: lookup condition cannot be evaluated over the index (%s)' % (qual, ex))
        yield Ob('map_index:%s finds every index entry by its own key' % qual, bad is None, ctx.floc(fn, scans[0]),
                 '' if bad is None else 'asking for icvn=%s vriic=%s fic=%s tspc=%s gives %s, the index says %s'
                 % (bad[0]['icvn'], bad[0]['vriic'], bad[0]['fic'], bad[0]['tspc'], bad[1], bad[0]['file']))


def r16_tables_per_instance(ctx):
    """the index, the code table and the data element table hold what THEIR file says: entries are kept per instance - a
    class-level or module-level list that every instance appends to makes every key ambiguous from the second
    instantiation on, and lets the packaged index answer for an explicit directory (C18.R2, shared)"""
    from . import c18
    for o in c18.r2_shared_state(ctx):
        yield o


RULES = [
    Rule('C16.R16', 'shared with C18.R2: no module/class-level mutable state (index and table entries are per instance)', r16_tables_per_instance, floor=22),
    Rule('C16.R1', 'index entries name existing well-formed maps; keys unambiguous; packaged', r1_index, floor=30),
    Rule('C16.R2', 'every data_ele / external code reference resolves; dataele lengths sane', r2_refs, floor=20000),
    Rule('C16.R3', 'usage/pos/seq/repeat/max_use/regex parse as the constructors parse them; seq is 1..n', r3_fields, floor=20000),
    Rule('C16.R4', 'syntax notes well formed and within their segment', r4_syntax, floor=1500),
    Rule('C16.R5', 'same-position sibling segments are distinguishable by the is_match discriminator', r5_siblings, floor=225),
    Rule('C16.R6', 'loop/segment paths unique per map and found again by getnodebypath', r6_paths, floor=3000),
    Rule('C16.R7', 'both map-location branches of the four loaders open the same file', r7_loader_branches, floor=13),
    Rule('C16.R8', 'model field names = constructor field names; accessor pairs read one name', r8_model_fields, floor=6),
    Rule('C16.R9', 'loaded map nodes are read-only outside their constructors (only parameterless path caches)', r9_nodes_immutable, floor=2),
    Rule('C16.R10', 'the table loaders store every entry of codes.xml / dataele.xml / maps.xml', r10_loaders_keep_every_entry, floor=3),
    Rule('C16.R12', 'index lookups read the whole key; the scan condition finds every entry by its own key (evaluated over maps.xml)', r12_lookup_by_own_key, floor=6),
    Rule('C16.R14', 'shared with C17.R1/R5: every node path parses into the node\'s own parts under the path grammar', r14_paths_parse, floor=2000),
    Rule('C16.R13', 'loop_if.__init__ / guess_unique_key_id_element interpreted over every map: same-position segments get the model\'s qualifier suffix', r13_suffix_code_over_data, floor=100),
    Rule('C16.R15', 'both loop lookups decided by constant propagation on a model loop (shared positions, qualifiers, unknown names)', r15_lookup_semantics, floor=2),
    Rule('C16.R11', 'getnodebypath2 uses the element index for the element and the component index for the component', r11_designator_levels, floor=2),
]
