"""C13 Data-type recognisers accept exactly the X12 value languages."""
import ast
import re

from ..core import Ob, Rule, AnalysisError, norm
from ..cfg import path_of, must_facts, has
from .. import astutil as A
from .. import rxdfa

META = {
    'explanation': (
        'R1 the regex constants rec_N, rec_R (used through match_re: anchored search + whole-value comparison) and '
        'rec_ID_B/rec_ID_E/rec_ID_E5/rec_DT/rec_TM (used through not_match_re: "some character outside the class") '
        'are turned into DFAs and compared for language equality with reference grammars written from the property '
        '(N = -?[0-9]+; R = optional minus, digits with at most one point followed by digits, at least one digit; '
        'ID/AN = strings over the X12 basic / extended / 5010-extended character sets; DT/TM digits only); the wrapper '
        'shapes and the selector tables (type, charset, version -> constant) are checked structurally, the patterns '
        'must be deterministic so that first-match = longest-match. R2 no exception can leave IsValidDataType: '
        'fixed-arity unpacking of split(), int() outside a ValueError handler unless dominated by the digits-only '
        'test with provably non-empty slices, explicit raises not caught locally, literal selector arguments outside '
        'the callee\'s table. R3 every comparison of a fixed slice / extracted field with a constant is evaluated as '
        'a predicate over the field\'s finite domain and compared with the range the property gives (hour<=23, '
        'minute<=59, second<=59, month 1..12, year>=1800, day bounds per month-length class, Gregorian leap rule for '
        '1800..9999); the slices must tile the value. R4 abstract interpretation over the length of the value: the '
        'set of lengths that can reach `return True` must equal {4,6,7,8} (time), {8} (D8), {6} (D6), {6,8,12} (DT). '
        'R5 the dispatcher ends in a rejecting else; a date range needs exactly one hyphen and validates both halves '
        'as D8.'),
    'not_decided': 'the conjunction of the field constraints as one language (would need path enumeration), the D6 '
                   'century window, behaviour for non-str values',
    'trusted_base': ['re._parser regex AST', 'sa/rxdfa.py subset construction', 'X12 character sets spelled out in sa/rules/c13.py; '
                     'the 5010 extended set (extended + ^ and grave accent) is taken from today\'s tree and labelled as such'],
    'technique': 'static analysis: regex-constant DFA equivalence, finite evaluation of comparison atoms, length-set abstract interpretation on the CFG',
}


META['explanation'] += ' Rounds 4-5: ' + 'R3 also: the time part of a 12-character value is checked in every month. R5 RD8 decided by constant propagation for values with 0-3 hyphens and per-half oracles.'
META['technique'] = META.get('technique', 'static analysis: AST/CFG rules over /repo source + shipped XML data') + '; conditional constant propagation over the CFG on finite, complete input domains (DESIGN.md 10.4.1)'

BASIC = 'ABCDEFGHIJKLMNOPQRSTUVWXYZ0123456789!"&\'()*+,-./:;?= '
EXT_ONLY = 'abcdefghijklmnopqrstuvwxyz%~@[]_{}\\|<>#$'
E5_ONLY = '^`'


def _cls(chars):
    return '[' + ''.join('\\' + c if c in '\\]^-[' else c for c in chars) + ']'


SPEC = {
    'N': r'-?[0-9]+',
    'R': r'-?([0-9]+(\.[0-9]+)?|\.[0-9]+)',
}
CHARSETS = {'B': BASIC, 'E': BASIC + EXT_ONLY, 'E5': BASIC + EXT_ONLY + E5_ONLY}


def _regex_constants(ctx):
    m = ctx.mod('validation')
    env = {'re.S': re.S, 're.ASCII': re.ASCII, 're.DOTALL': re.S, 're.A': re.ASCII, 're.I': re.I, 're.M': re.M,
           're.IGNORECASE': re.I, 're.MULTILINE': re.M, 're.X': re.X, 're.VERBOSE': re.X, 're.U': re.U, 're.UNICODE': re.U}
    out = {}
    for n in m.tree.body:
        if isinstance(n, ast.Assign) and len(n.targets) == 1 and isinstance(n.targets[0], ast.Name):
            v = n.value
            if isinstance(v, ast.Call) and path_of(v.func) == 're.compile':
                try:
                    pat_ = A.ev(v.args[0], env) if v.args else None      # a literal, or built from earlier module-level constants
                except A.NotClosed:
                    pat_ = None
                if not isinstance(pat_, str):
                    raise AnalysisError('validation.%s: pattern is not a literal' % n.targets[0].id)
                flags = 0
                if len(v.args) > 1:
                    try:
                        flags = A.ev(v.args[1], env)
                    except A.NotClosed as e:
                        raise AnalysisError('validation.%s: flags not closed: %s' % (n.targets[0].id, e))
                out[n.targets[0].id] = (pat_, int(flags), n)
            else:
                try:
                    env[n.targets[0].id] = A.ev(v, env)
                except (A.NotClosed, Exception):
                    pass
    return out


def _selector_table(fn, var='rec'):
    """{(conditions tuple): constant name} for assignments `rec = rec_X` with the Eq/In facts that hold there"""
    from ..cfg import CFG
    g = CFG(fn)
    IN = must_facts(g)
    out = []
    for nd in g.nodes:
        a = nd.ast
        if nd.kind == 'stmt' and isinstance(a, ast.Assign) and path_of(a.targets[0]) == var \
                and isinstance(a.value, (ast.Name, ast.IfExp)):
            facts = IN[nd.id] or ()
            conds = {}
            for f in facts:
                if f[0] == 'Eq':
                    conds[f[1]] = (f[2],)
                elif f[0] == 'In' and f[1] not in conds:
                    conds[f[1]] = tuple(sorted(f[2]))

            def split(v, cnd):
                """a conditional expression selects like an if/else: one entry per arm with the arm's condition"""
                if isinstance(v, ast.Name):
                    out.append((cnd, v.id, nd))
                elif isinstance(v, ast.IfExp):
                    from ..cfg import facts_from_test
                    for arm, truth in ((v.body, True), (v.orelse, False)):
                        c2 = dict(cnd)
                        for f in facts_from_test(v.test, truth):
                            if f[0] == 'Eq':
                                c2[f[1]] = (f[2],)
                            elif f[0] == 'In' and f[1] not in c2:
                                c2[f[1]] = tuple(sorted(f[2]))
                        split(arm, c2)
            split(a.value, conds)
    return g, IN, out


def r1_languages(ctx):
    consts = _regex_constants(ctx)
    W = 'pyx12/validation.py'
    # --- match_re wrapper: N, R
    fn = ctx.func('validation', 'match_re')
    g, IN, table = _selector_table(fn)
    sel = {}
    for conds, name, nd in table:
        k = conds.get('short_data_type')
        if k:
            for x in k:
                sel[x] = name
    searches = [c for c in A.calls_in(fn) if A.call_target(c) in (('rec', 'search'), ('rec', 'match'), ('rec', 'fullmatch'))]
    if len(searches) != 1:
        raise AnalysisError('validation:match_re: rec.search/match/fullmatch call not found')
    meth = A.call_target(searches[0])[1]
    ok = path_of(searches[0].args[0]) == 'val' if searches[0].args else False
    yield Ob('validation:match_re matches the value itself', ok, ctx.floc(fn, searches[0]),
             '' if ok else 'the matcher is applied to %s' % norm(searches[0]))
    whole = False
    mvars = {path_of(n.targets[0]) for n in ast.walk(fn) if isinstance(n, ast.Assign) and n.value is searches[0]}
    mtexts = {'%s.group(0)' % v for v in mvars if v} | {'%s.group()' % v for v in mvars if v} \
        | {norm(searches[0]) + '.group(0)', norm(searches[0]) + '.group()'}
    for n in ast.walk(fn):
        if isinstance(n, ast.Compare) and len(n.ops) == 1 and isinstance(n.ops[0], (ast.NotEq, ast.Eq)):
            sides = {norm(n.left), norm(n.comparators[0])}
            if 'val' in sides and (sides & mtexts):
                whole = True
    ok = whole or meth == 'fullmatch'
    yield Ob('validation:match_re compares the match with the whole value', ok, ctx.floc(fn),
             '' if ok else 'no `m.group(0) != val` test: a matching prefix would be accepted')
    for typ in ('N', 'R'):
        key = 'validation:match_re[%s]' % typ
        name = sel.get(typ)
        if name is None or name not in consts:
            yield Ob(key + ' selects a constant', False, ctx.floc(fn), 'no regex constant selected for type %s' % typ)
            continue
        pat, flags, node = consts[name]
        try:
            nfa = rxdfa.compile_nfa(pat, flags)
            res = rxdfa.compare(pat, flags, SPEC[typ], re.S | re.ASCII)
        except rxdfa.Unsupported as e:
            # a construct the automaton builder does not model (an anchor inside one alternative ...): the two languages
            # cannot be proved equal, but a witness can still be looked for - the pattern is data: every string up to length
            # 6 over the alphabet of the value language (sign, point, a digit, a letter) is put to the pattern the way
            # match_re uses it (first match must be the whole value) and to the specification
            import itertools as _it2
            rx_, spec_ = re.compile(pat, flags), re.compile(SPEC[typ], re.S | re.ASCII)
            wit = None
            for L_ in range(0, 7):
                for tup in _it2.product('-.05a', repeat=L_):
                    s_ = ''.join(tup)
                    m_ = getattr(rx_, meth if meth in ('search', 'match') else 'search')(s_)
                    got_ = m_ is not None and m_.group(0) == s_
                    want_ = spec_.fullmatch(s_) is not None
                    if got_ != want_:
                        wit = (s_, got_)
                        break
                if wit:
                    break
            if wit is None:
                raise AnalysisError('%s: unsupported regex construct %s' % (name, e))
            yield Ob(key + ' language', False, ctx.loc('validation', node),
                     '%s = %r %s %r, which %s a type %s value (found by enumeration: the pattern has a construct the automaton does not model: %s)'
                     % (name, pat, 'accepts' if wit[1] else 'rejects', wit[0], 'is not' if wit[1] else 'is', typ, e))
            continue
        if meth == 'search':
            yield Ob(key + ' anchored at the start', bool(nfa.anch_start), ctx.loc('validation', node),
                     '' if nfa.anch_start else '%s = %r is used with search() but not anchored with ^' % (name, pat))
        det = res['dfa_a'].ambiguous is None and not nfa.has_lazy
        yield Ob(key + ' deterministic (first match = longest match)', det, ctx.loc('validation', node),
                 '' if det else '%s = %r is ambiguous: the backtracking match need not be the longest' % (name, pat))
        oa, ob = res['only_a'], res['only_b']
        ok = oa is None and ob is None
        msg = ''
        if oa is not None:
            msg += 'accepts %r which is not a valid %s; ' % (oa, typ)
        if ob is not None:
            msg += 'rejects %r which is a valid %s' % (ob, typ)
        yield Ob(key + ' language', ok, ctx.loc('validation', node), msg,
                 detail={'pattern': pat, 'reference': SPEC[typ], 'dfa_states': res['states'], 'alphabet_classes': res['classes']})
    # the wrapper's verdict is the regex's and nothing else: decided by constant propagation with the compiled constants in
    # the environment, on ASCII and non-ASCII digit strings, signed, decimal, blank and mixed texts
    from ..absint import run_function, NotClosedTest
    fnm = ctx.func('validation', 'match_re')
    envc = {nm: re.compile(p_, f_) for nm, (p_, f_, _n) in consts.items()}
    badw = []
    for typ in ('N', 'R'):
        name = sel.get(typ)
        if name not in envc:
            continue
        for v in ('12', '0', '-5', '1.5', '-.5', '', 'A1', '12 ', '1-2', '\u0661\u0662\u0663', '\u00b2', '1\u00b3', '\uff11\uff12', '+1', '1e5'):
            m_ = envc[name].search(v)
            want = bool(m_) and m_.group(0) == v
            try:
                got = run_function(ctx.cfg(fnm), fnm, [typ, v], {}, env=dict(envc))
            except (NotClosedTest, A.NotClosed) as e:
                raise AnalysisError('validation:match_re cannot be decided for %r: %s' % (v, e))
            if bool(got) != want and len(badw) < 3:
                badw.append('match_re(%r, %r) is %r, the expression %s says %r' % (typ, v, got, name, want))
    yield Ob('validation:match_re returns the verdict of the selected expression for every value', not badw, ctx.floc(fnm),
             '' if not badw else badw[0] + ' - a shortcut beside the expression accepts or rejects values on its own')
    # --- not_match_re wrapper
    fn = ctx.func('validation', 'not_match_re')
    g, IN, table = _selector_table(fn)
    sel = {}
    for conds, name, nd in table:
        sdt = conds.get('short_data_type', ())
        cs = conds.get('charset', (None,))
        icvn = conds.get('icvn')
        for t in sdt:
            for c in cs:
                if icvn:
                    sel[(t, c, icvn[0])] = name
                else:
                    sel[(t, c, None)] = name
    searches = [c for c in A.calls_in(fn) if A.call_target(c) == ('rec', 'search')]
    if len(searches) != 1:
        raise AnalysisError('validation:not_match_re: rec.search call not found')
    ok = bool(searches[0].args) and path_of(searches[0].args[0]) == 'val'
    yield Ob('validation:not_match_re searches the value itself', ok, ctx.floc(fn, searches[0]),
             '' if ok else 'search is applied to %s' % norm(searches[0]))

    def lookup(t, c, v):
        return sel.get((t, c, v)) or sel.get((t, c, None))
    # the wrapper's verdict is the selected expression's and nothing else (constant propagation, compiled constants in
    # the environment): ASCII and non-ASCII letters and digits, blanks, control and punctuation characters
    badn = []
    VALS = ('', 'ABC', 'abc', 'A B', 'A1', '\u00c9', '\u00c9COLE1', '\u03a9', '\u0661\u0662', '\uff21\uff22', 'a^', '~', '`', 'A\n', '\u2167', 'STRA\u00dfE', '12',
            '1\u00b2', ' ', 'A\x07', '{}', '\u00c0\u00c7')
    for t_, c_, v_ in (('ID', 'B', '00401'), ('AN', 'B', '00501'), ('ID', 'E', '00401'), ('AN', 'E', '00401'), ('ID', 'E', '00501'), ('AN', 'E', '00501'),
                       ('DT', 'B', '00401'), ('TM', 'E', '00501')):
        nm_ = lookup(t_, c_, v_) or lookup(t_, c_, None) or lookup(t_, None, None) or next((n for (tt, cc, vv), n in sel.items() if tt == t_), None)
        if nm_ not in envc:
            continue
        for val in VALS:
            m_ = envc[nm_].search(val)
            want_ = bool(m_ and m_.group(0))
            try:
                got = run_function(ctx.cfg(fn), fn, [t_, val, c_, v_], {}, env=dict(envc))
            except (NotClosedTest, A.NotClosed) as e:
                raise AnalysisError('validation:not_match_re cannot be decided for (%s, %r, %s, %s): %s' % (t_, val, c_, v_, e))
            if bool(got) != want_ and len(badn) < 3:
                badn.append('not_match_re(%r, %r, %r, %r) is %r, the expression %s says %r' % (t_, val, c_, v_, got, nm_, want_))
    yield Ob('validation:not_match_re returns the verdict of the selected expression for every value', not badn, ctx.floc(fn),
             '' if not badn else badn[0] + ' - a shortcut beside the expression accepts or rejects values on its own')
    want = [(('ID', 'B', '00401'), 'B'), (('ID', 'B', '00501'), 'B'), (('AN', 'B', '00401'), 'B'), (('AN', 'B', '00501'), 'B'),
            (('ID', 'E', '00401'), 'E'), (('AN', 'E', '00401'), 'E'), (('ID', 'E', '00501'), 'E5'), (('AN', 'E', '00501'), 'E5'),
            (('DT', None, None), 'D'), (('TM', None, None), 'D')]
    checked = {}
    for (t, c, v), setname in want:
        key = 'validation:not_match_re[%s,%s,%s]' % (t, c, v)
        name = lookup(t, c, v)
        if name is None and c is None:
            name = lookup(t, 'B', None) or next((n for (tt, cc, vv), n in sel.items() if tt == t), None)
        if name is None or name not in consts:
            yield Ob(key + ' selects a constant', False, ctx.floc(fn), 'no regex constant selected')
            continue
        pat, flags, node = consts[name]
        if (name, setname) in checked:
            r = checked[(name, setname)]
        else:
            try:
                nfa = rxdfa.compile_nfa(pat, flags)
                if rxdfa.nullable(nfa):
                    r = (False, '%s = %r can match the empty string: search() then succeeds at position 0 and a later invalid character is missed' % (name, pat), {})
                else:
                    allowed = '0123456789' if setname == 'D' else CHARSETS[setname]
                    inv = '(?s:.)*(?:%s)(?s:.)*' % pat
                    spec = '%s*' % _cls(allowed)
                    na, nb = rxdfa.compile_nfa(inv, flags), rxdfa.compile_nfa(spec, re.S | re.ASCII)
                    reps = rxdfa.representatives([na, nb])
                    da, db = rxdfa.DFA(na, reps), rxdfa.DFA(nb, reps)

                    class Co(object):   # complement view of da: valid = not "contains an invalid run"
                        reps = da.reps
                        start = da.start
                        trans = da.trans
                        states = da.states

                        @staticmethod
                        def accepting(S):
                            return not da.accepting(S)
                    oa = rxdfa.difference_witness(Co, db)
                    ob = rxdfa.difference_witness(db, Co)
                    msg = ''
                    if oa is not None:
                        msg += 'accepts %r, which has a character outside the %s set; ' % (oa, {'B': 'basic', 'E': 'extended', 'E5': '5010 extended', 'D': 'digit'}[setname])
                    if ob is not None:
                        msg += 'rejects %r, whose characters all belong to the set' % (ob,)
                    r = (oa is None and ob is None, msg, {'pattern': pat, 'classes': len(reps), 'dfa_states': len(da.states) + len(db.states)})
            except rxdfa.Unsupported as e:
                raise AnalysisError('%s: unsupported regex construct %s' % (name, e))
            checked[(name, setname)] = r
        yield Ob(key + ' language via ' + name, r[0], ctx.loc('validation', node), r[1], detail=r[2])
    # character-set inclusion chain
    sets = {}
    for nm in ('rec_ID_B', 'rec_ID_E', 'rec_ID_E5'):
        if nm in consts:
            mm = rxdfa.charclass_members(rxdfa.compile_nfa(consts[nm][0], consts[nm][1]))
            if mm:
                sets[nm] = set(range(256)) - mm[0] if mm[1][0] else mm[0]
    if len(sets) == 3:
        ok = sets['rec_ID_B'] < sets['rec_ID_E'] < sets['rec_ID_E5']
        yield Ob('validation character sets basic < extended < extended-5010', ok, W,
                 '' if ok else 'the three character classes are not strictly nested')
    # --- the dispatcher hands charset and version to the class selector
    disp = ctx.func('validation', 'IsValidDataType')
    for c in A.calls_in(disp):
        if A.call_target(c) == (None, 'not_match_re'):
            args = [path_of(a) for a in c.args] + ['%s=%s' % (k.arg, path_of(k.value)) for k in c.keywords]
            ok = len(c.args) >= 4 and args[1] == 'str_val' and args[2] == 'charset' and args[3] == 'icvn' or \
                ('charset=charset' in args and 'icvn=icvn' in args and args[1] == 'str_val')
            yield Ob('validation:IsValidDataType passes value, charset and version to not_match_re', ok, ctx.floc(disp, c),
                     '' if ok else 'call is %s' % norm(c))
        if A.call_target(c) == (None, 'match_re'):
            ok = len(c.args) == 2 and path_of(c.args[1]) == 'str_val'
            yield Ob('validation:IsValidDataType passes the value to match_re(%s)' % norm(c.args[0]), ok, ctx.floc(disp, c),
                     '' if ok else 'call is %s' % norm(c))


# --------------------------------------------------------------------------- R2 never raises
def _handlers_catching(fn, node, names):
    """is `node` inside a try whose handlers catch one of `names` (or everything)?"""
    p = A.parent(node)
    child = node
    while p is not None and p is not fn:
        if isinstance(p, ast.Try) and child in p.body:
            for h in p.handlers:
                if h.type is None:
                    return True
                ts = h.type.elts if isinstance(h.type, ast.Tuple) else [h.type]
                for t in ts:
                    tn = path_of(t)
                    if tn and tn.split('.')[-1] in names:
                        return True
        child = p
        p = A.parent(p)
    return False


EXC_PARENTS = {'ValueError': ('ValueError', 'Exception', 'BaseException'),
               'TypeError': ('TypeError', 'Exception', 'BaseException'),
               'IndexError': ('IndexError', 'LookupError', 'Exception', 'BaseException'),
               'IsValidError': ('IsValidError', 'Exception', 'BaseException'),
               'EngineError': ('EngineError', 'Exception', 'BaseException')}


def r2_never_raises(ctx):
    m = ctx.mod('validation')
    fns = {q: f for q, f in ctx.functions('validation')}
    reach = ['IsValidDataType']
    seen = set(reach)
    while reach:
        q = reach.pop()
        for c in A.calls_in(fns[q]):
            r, nm = A.call_target(c)
            if r is None and nm in fns and nm not in seen:
                seen.add(nm)
                reach.append(nm)
    for q in sorted(seen):
        fn = fns[q]
        g = ctx.cfg(fn)
        IN = must_facts(g)
        # a) fixed-arity unpacking of split()
        for n in ast.walk(fn):
            if isinstance(n, ast.Assign) and isinstance(n.targets[0], (ast.Tuple, ast.List)) and isinstance(n.value, ast.Call) \
                    and A.call_target(n.value)[1] in ('split', 'rsplit', 'partition'):
                meth = A.call_target(n.value)[1]
                arity = len(n.targets[0].elts)
                safe = _handlers_catching(fn, n, EXC_PARENTS['ValueError'])
                if meth == 'partition' and arity == 3:
                    safe = True
                if meth in ('split', 'rsplit') and len(n.value.args) == 2 and A.const(n.value.args[1]) == arity - 1:
                    # maxsplit bounds the upper arity; the lower arity needs a dominating `sep in s`
                    safe = safe or any(isinstance(x, ast.Compare) for x in ast.walk(fn))
                if not safe:
                    # accept a dominating test that fixes the number of separators: s.count(sep) == arity-1
                    for nd in g.nodes:
                        if nd.stmt is n or nd.ast is n:
                            dom = g.dominators()[nd.id]
                            for d in dom:
                                t = g.nodes[d]
                                if t.kind == 'test' and isinstance(t.ast, ast.Compare) and 'count(' in norm(t.ast) \
                                        and A.const(t.ast.comparators[0]) == arity - 1:
                                    safe = True
                yield Ob('validation:%s %s' % (q, norm(n)), safe, ctx.floc(fn, n),
                         '' if safe else 'unpacking split() into %d names raises ValueError when the separator occurs %d or more times'
                         % (arity, arity))
        # b) int() on text
        for c in A.calls_in(fn):
            if A.call_target(c) == (None, 'int') and c.args:
                arg = c.args[0]
                if isinstance(arg, ast.Constant):
                    continue
                safe = _handlers_catching(fn, c, EXC_PARENTS['ValueError'])
                why = ''
                if not safe:
                    safe, why = _int_arg_proved_digits(fn, g, c)
                yield Ob('validation:%s %s' % (q, norm(c)), safe, ctx.floc(fn, c),
                         '' if safe else 'int() of input text outside a ValueError handler and not provably digits: %s' % why)
        # c) explicit raises that are not caught inside this function and can propagate to IsValidDataType
        for n in ast.walk(fn):
            if isinstance(n, ast.Raise) and n.exc is not None:
                cls = path_of(n.exc.func) if isinstance(n.exc, ast.Call) else path_of(n.exc)
                cls = (cls or '?').split('.')[-1]
                caught = _handlers_catching(fn, n, EXC_PARENTS.get(cls, (cls, 'Exception', 'BaseException')))
                if caught:
                    yield Ob('validation:%s raise %s caught locally' % (q, cls), True, ctx.floc(fn, n))
                    continue
                # not caught here: acceptable only if every caller reaches this raise with a literal selector that avoids it
                ok, why = _raise_unreachable_by_literals(ctx, fns, seen, q, fn, g, IN, n)
                yield Ob('validation:%s raise %s' % (q, cls), ok, ctx.floc(fn, n),
                         '' if ok else '%s can escape %s: %s' % (cls, q, why), note=why if ok else None)
        # d) subscript with constant index on a parameter needs NonEmpty
        for nd in g.nodes:
            for x in g.walk_exprs(nd):
                if isinstance(x, ast.Subscript) and isinstance(x.ctx, ast.Load) and isinstance(A.const(x.slice), int):
                    p = path_of(x.value)
                    if p and p in [a.arg for a in fn.args.args]:
                        ok = has(IN[nd.id], 'NonEmpty', p) or _handlers_catching(fn, x, EXC_PARENTS['IndexError'])
                        yield Ob('validation:%s %s' % (q, norm(x)), ok, ctx.floc(fn, x),
                                 '' if ok else 'index into %s without a non-empty guard (IndexError on the empty string)' % p)


def _int_arg_proved_digits(fn, g, call):
    """int(v[a:b]) is safe if a dominating test establishes digits-only for v (not_match_re('DT'|'TM', v) false)
    and a dominating length-membership test makes the slice non-empty."""
    arg = call.args[0]
    base = arg
    lo = hi = None
    if isinstance(arg, ast.Subscript) and isinstance(arg.slice, ast.Slice):
        base = arg.value
        lo = A.const(arg.slice.lower) if arg.slice.lower is not None else 0
        hi = A.const(arg.slice.upper) if arg.slice.upper is not None else None
    v = path_of(base)
    if v is None:
        return False, 'argument %s is not a variable or slice' % norm(arg)
    node = None
    for nd in g.nodes:
        if any(x is call for x in g.walk_exprs(nd)):
            node = nd
    if node is None:
        return False, 'call not located in the CFG'
    dom = g.dominators()[node.id]
    digits = False
    lens = None
    for d in sorted(dom):
        t = g.nodes[d]
        if t.kind != 'test':
            continue
        # which edge of t dominates us?  find whether the T or F successor dominates
        edge = None
        for s, l in t.succ:
            if l in ('T', 'F') and (s.id in dom or s.id == node.id):
                edge = l
        e = t.ast
        if isinstance(e, ast.Call) and A.call_target(e) == (None, 'not_match_re') and len(e.args) >= 2 \
                and A.const(e.args[0]) in ('DT', 'TM') and path_of(e.args[1]) == v and edge == 'F':
            digits = True
        if isinstance(e, ast.Compare) and ((isinstance(e.ops[0], ast.In) and edge == 'T') or (isinstance(e.ops[0], ast.NotIn) and edge == 'F')) \
                and norm(e.left) == 'len(%s)' % v and isinstance(e.comparators[0], (ast.Tuple, ast.List)):
            lens = [A.const(x) for x in e.comparators[0].elts]
    if not digits:
        return False, 'no dominating digits-only test on %s' % v
    # reassignments of v between the test and the call may only prepend digit literals
    for n in ast.walk(fn):
        if isinstance(n, ast.Assign) and path_of(n.targets[0]) == v:
            vals = [n.value.body, n.value.orelse] if isinstance(n.value, ast.IfExp) else [n.value]
            for x in vals:
                if not (isinstance(x, ast.BinOp) and isinstance(x.op, ast.Add) and A.is_str(x.left) and x.left.value.isdigit()
                        and path_of(x.right) == v):
                    return False, '%s is reassigned by %s' % (v, norm(n))
    if lo is not None:
        if lens is None:
            return False, 'no dominating length test for the slice'
        # a guarded rewrite `if K == len(v): v = 'dd' + v` lengthens exactly the values of length K
        for n in ast.walk(fn):
            if isinstance(n, ast.Assign) and path_of(n.targets[0]) == v:
                d = _prepend_len_of(n.value, v)
                par = A.parent(n)
                K = None
                if isinstance(par, ast.If) and isinstance(par.test, ast.Compare) and isinstance(par.test.ops[0], ast.Eq) and n in par.body:
                    sides = [par.test.left, par.test.comparators[0]]
                    # (the length may be held in a local bound to len(v) - necessarily before this, the only, rewrite of v)
                    len_names = {st_.targets[0].id for st_ in ast.walk(fn) if isinstance(st_, ast.Assign) and len(st_.targets) == 1
                                 and isinstance(st_.targets[0], ast.Name) and norm(st_.value) == 'len(%s)' % v
                                 and st_.lineno < n.lineno}
                    if any(norm(x) == 'len(%s)' % v or (isinstance(x, ast.Name) and x.id in len_names) for x in sides):
                        K = next((A.const(x) for x in sides if isinstance(x, ast.Constant)), None)
                if d is not None and K is not None:
                    lens = [L + d if L == K else L for L in lens]
                elif d is not None:
                    lens = lens + [L + d for L in lens]
        if hi is None or not all(isinstance(L, int) and lo < min(hi, L) for L in lens):
            return False, 'slice [%s:%s] may be empty for lengths %s' % (lo, hi, lens)
    return True, ''


def _raise_unreachable_by_literals(ctx, fns, reachable, q, fn, g, IN, raise_stmt):
    """the raise sits in an else-arm of a dispatch on a parameter; every call site inside validation.py passes a
    literal for that parameter which selects another arm."""
    # labels handled before the raise: Eq/In facts negated... use the if-chain the raise belongs to
    params = [a.arg for a in fn.args.args]
    chain_labels = None
    pvar = None
    for p in params:
        arms = list(A.branch_chain(fn.body, A.name_or_call_pred(p)))
        for lab, body, extra, node in arms:
            if lab is None and any(x is raise_stmt for st in body for x in ast.walk(st)):
                chain_labels = {a[0] for a in arms if a[0] not in (None, '?')}
                pvar = p
    if chain_labels is None:
        return False, 'raise is not the else-arm of a dispatch on a parameter'
    idx = params.index(pvar)
    sites = 0
    for q2 in sorted(reachable):
        for c in A.calls_in(fns[q2]):
            if A.call_target(c) == (None, q):
                sites += 1
                a = c.args[idx] if len(c.args) > idx else None
                if a is None or not A.is_str(a):
                    return False, 'call %s in %s passes a non-literal %s' % (norm(c), q2, pvar)
                if a.value not in chain_labels:
                    return False, 'call %s in %s selects no arm of %s (handled: %s)' % (norm(c), q2, q, sorted(chain_labels))
    if not sites:
        return False, 'no call site found'
    return True, 'all %d call sites pass a literal among %s' % (sites, sorted(chain_labels))


# --------------------------------------------------------------------------- R3 field atoms
def _two_digit():
    return ['%02d' % i for i in range(100)]


def r3_atoms(ctx):
    # ---- time
    fn = ctx.func('validation', 'is_valid_time')
    want = {(0, 2): ('hour', 23), (2, 4): ('minute', 59), (4, 6): ('second', 59)}
    found = {}
    for n in ast.walk(fn):
        if isinstance(n, ast.Compare) and len(n.ops) == 1:
            for side, other, flip in ((n.left, n.comparators[0], False), (n.comparators[0], n.left, True)):
                if isinstance(side, ast.Subscript) and isinstance(side.slice, ast.Slice) and path_of(side.value) == 'val' \
                        and A.is_str(other):
                    lo = A.const(side.slice.lower) if side.slice.lower is not None else 0
                    hi = A.const(side.slice.upper)
                    found.setdefault((lo, hi), []).append(n)
    for sl, (name, mx) in sorted(want.items()):
        key = 'validation:is_valid_time %s val[%d:%d]' % (name, sl[0], sl[1])
        atoms = found.get(sl, [])
        if not atoms:
            yield Ob(key, False, ctx.floc(fn), 'no range test on the %s field' % name)
            continue
        # the atoms on this slice, OR-ed, must reject exactly the values above the maximum
        rej = set()
        for a in atoms:
            for s in _two_digit():
                try:
                    if A.ev(a, {'val': 'XXXXXXXX'[:sl[0]] + s + 'XX'}):
                        rej.add(s)
                except A.NotClosed as e:
                    raise AnalysisError('%s: atom not closed: %s' % (key, e))
            # the atom must lead to rejection
        wantrej = {s for s in _two_digit() if int(s) > mx}
        ok = rej == wantrej
        diff = sorted(rej ^ wantrej)
        yield Ob(key, ok, ctx.floc(fn, atoms[0]),
                 '' if ok else '%s field: %s is %s but must be %s' % (name, diff[0], 'rejected' if diff[0] in rej else 'accepted',
                                                                  'accepted' if diff[0] in rej else 'rejected'),
                 detail={'evaluated': 100 * len(atoms)})
        for a in atoms:
            okr = _leads_to_reject(fn, a)
            yield Ob(key + ' rejects', okr, ctx.floc(fn, a), '' if okr else 'a true range test does not lead to rejection')
    extra = sorted(set(found) - set(want))
    yield Ob('validation:is_valid_time slices tile HHMMSS', not extra, ctx.floc(fn),
             '' if not extra else 'range test on unexpected slice(s) %s' % extra)
    # ---- date
    for ob in _date_rule(ctx):
        yield ob


def _date_rule(ctx):
    """The three fields are named wherever they are read (`int(val[0:4])` -> year ...), then the region of the CFG
    that tests them is explored by constant propagation from (year, month, day): a test that is closed under these
    is decided, any other test ends the region.  The shape of the code (locals, helper functions, if-chains or tables
    of constants) does not matter, only which triples reach a rejecting exit."""
    from ..absint import explore
    from ..cfg import CFG
    fn0 = ctx.func('validation', 'is_valid_date')
    wantb = {(0, 4): 'year', (4, 6): 'month', (6, 8): 'day'}
    table = {}
    seen = {}
    for n in ast.walk(fn0):
        if isinstance(n, ast.Call) and A.call_target(n) == (None, 'int') and n.args and isinstance(n.args[0], ast.Subscript) \
                and isinstance(n.args[0].slice, ast.Slice) and path_of(n.args[0].value) == 'val':
            sl = n.args[0].slice
            lo = A.const(sl.lower) if sl.lower is not None else 0
            hi = A.const(sl.upper)
            seen[(lo, hi)] = n
            if (lo, hi) in wantb:
                table[ast.unparse(n)] = wantb[(lo, hi)]
    for sl, fld in sorted(wantb.items()):
        ok = sl in seen
        yield Ob('validation:is_valid_date %s = int(val[%d:%d])' % (fld, sl[0], sl[1]), ok, ctx.floc(fn0),
                 '' if ok else 'no field is read from val[%d:%d] (found %s)' % (sl[0], sl[1], sorted(seen)))
    if not all(sl in seen for sl in wantb):
        return
    tcalls = [c for c in A.calls_in(fn0) if A.call_target(c) == (None, 'is_valid_time')]
    ok = len(tcalls) == 1 and norm(tcalls[0].args[0]) == 'val[8:12]'
    yield Ob('validation:is_valid_date time part is val[8:12]', ok, ctx.floc(fn0),
             '' if ok else 'time part passed is %s' % [norm(c) for c in tcalls])
    fn = A.abstract(fn0, table)
    g = CFG(fn)
    FLD = {'year', 'month', 'day'}
    mention = [nd for nd in g.nodes if nd.ast is not None and any(isinstance(x, ast.Name) and x.id in FLD and isinstance(x.ctx, ast.Load)
                                                                   for x in g.walk_exprs(nd))]
    if not mention:
        raise AnalysisError('is_valid_date: no statement uses the date fields')
    start = min(mention, key=lambda nd: nd.id)
    dom = g.dominators()
    if not all(start.id in dom.get(nd.id, ()) for nd in mention):
        raise AnalysisError('is_valid_date: the statements that use the date fields have no common entry')
    # the century prefix is applied before the fields are read
    rejecting = {nd.id for nd in g.nodes if nd.kind == 'raise' or (nd.kind == 'return' and A.const(nd.ast.value) is False)}
    funcs = {'int': int, 'len': len}
    from ..absint import helper_oracles as _ho
    hf_dates = _ho(ctx, 'validation')
    cnt = [0]
    # constant tables of the module (a month-length table, for instance) are part of the closed environment
    MODC = {k: v for k, v in A.module_constants(ctx.mod('validation').tree).items() if isinstance(v, (A.FrozenDict, tuple, frozenset))}

    def rejected(y, m, d):
        cnt[0] += 1
        try:
            env0 = dict(MODC)
            env0.update({'year': y, 'month': m, 'day': d})
            vis = explore(g, env0, funcs=funcs, start=start, unknown='stop', on_unknown=_unknown)
        except RuntimeError as e:
            raise AnalysisError('is_valid_date: %s' % e)
        return bool(vis & rejecting)

    def _unknown(nd, env):
        if any(isinstance(x, ast.Name) and (x.id in FLD or (x.id in env and x.id not in MODC)) for x in ast.walk(nd.ast)):
            raise AnalysisError('is_valid_date: a test on the date fields cannot be evaluated: %s' % norm(nd.ast))

    where = ctx.floc(fn0, start.stmt if start.stmt is not None else fn0)
    rej = {y for y in range(0, 10000) if rejected(y, 1, 1)}
    ok = rej == set(range(0, 1800))
    yield Ob('validation:is_valid_date year >= 1800', ok, where,
             '' if ok else 'year test rejects %s, the property says not before 1800' % _rng(rej), detail={'evaluated': 10000})
    rej = {m for m in range(0, 100) if rejected(2001, m, 1)}
    wantrej = set(range(0, 100)) - set(range(1, 13))
    ok = rej == wantrej
    yield Ob('validation:is_valid_date month in 1..12', ok, where,
             '' if ok else 'month test treats %s wrongly' % sorted(rej ^ wantrej)[:4], detail={'evaluated': 100})
    CAL = {1: 31, 2: 28, 3: 31, 4: 30, 5: 31, 6: 30, 7: 31, 8: 31, 9: 30, 10: 31, 11: 30, 12: 31}
    for mth in range(1, 13):
        key = 'validation:is_valid_date month %02d day bounds' % mth
        msgs = []
        for y in (2001, 2004, 1900, 2000):
            nd = CAL[mth] + (1 if mth == 2 and ((y % 4 == 0 and y % 100 != 0) or y % 400 == 0) else 0)
            acc = {d for d in range(0, 100) if not rejected(y, mth, d)}
            if acc != set(range(1, nd + 1)):
                msgs.append('year %d: accepts days %s, calendar says 1..%d' % (y, _rng(acc), nd))
        yield Ob(key, not msgs, where, '; '.join(msgs[:2]), detail={'evaluated': 400})
    # the documented century window of a 6-digit date (00-49 -> 20xx, 50-99 -> 19xx), decided by running the whole function
    # on 6-digit values whose verdict depends on the century: 29 February exists in 2000, 2048, 1952, 1996 and not in
    # 1900 (=00 under a swapped window), 2049, 1950, 1999
    from ..absint import run_function as _run_f, NotClosedTest as _NCT
    f6 = {'not_match_re': lambda t, v, *a: not (v.isascii() and v.isdigit()), 'is_valid_time': lambda v: True}
    bad6 = []
    for dtp in ('D6', 'DT'):
        for v6, want6 in (('000229', True), ('000230', False), ('480229', True), ('490229', False), ('500229', False), ('520229', True), ('960229', True),
                          ('990229', False), ('491231', True), ('500101', True), ('000100', False)):
            try:
                got6 = _run_f(ctx.cfg(fn0), fn0, [dtp, v6], dict(hf_dates, **f6), env=dict(MODC))
            except (_NCT, A.NotClosed) as e:
                raise AnalysisError('is_valid_date cannot be decided for the 6-digit value %r: %s' % (v6, e))
            if bool(got6) != want6:
                bad6.append('is_valid_date(%r, %r) is %r; with the century window 00-49 = 20xx, 50-99 = 19xx the date %s' % (dtp, v6, got6, 'exists' if want6 else 'does not exist'))
    yield Ob('validation:is_valid_date 6-digit dates use the documented century window', not bad6, where, '' if not bad6 else bad6[0])
    # a 12-character value carries a time: it is checked whatever the month, and its verdict decides
    def rejected_with_time(m, time_ok):
        env0 = dict(MODC)
        env0.update({'year': 2001, 'month': m, 'day': 1, 'val': '200101012500', 'len(val)': 12})
        for st_ in ast.walk(fn0):
            if isinstance(st_, ast.Assign) and len(st_.targets) == 1 and isinstance(st_.targets[0], ast.Name) and norm(st_.value) == 'len(val)':
                env0[st_.targets[0].id] = 12       # a local holding the length of the 12-character value
        f2 = dict(funcs)
        f2['is_valid_time'] = lambda *a_: time_ok
        try:
            vis = explore(g, env0, funcs=f2, start=start, unknown='stop', on_unknown=_unknown)
        except RuntimeError as e:
            raise AnalysisError('is_valid_date: %s' % e)
        return bool(vis & rejecting)
    bad_t = [m for m in range(1, 13) if not rejected_with_time(m, False) or rejected_with_time(m, True)]
    yield Ob('validation:is_valid_date the time part of a 12-character value is checked in every month', not bad_t, where,
             '' if not bad_t else 'in month %02d a valid date followed by an invalid time (..2500) is %s' % (
                 bad_t[0], 'accepted' if not rejected_with_time(bad_t[0], False) else 'rejected even when the time is valid'))
    bad = []
    for y in range(1800, 10000):
        want_leap = (y % 4 == 0 and y % 100 != 0) or y % 400 == 0
        if (not rejected(y, 2, 29)) != want_leap:
            bad.append(y)
    yield Ob('validation:is_valid_date leap-year rule', not bad, where,
             '' if not bad else 'year %d is treated as %s' % (bad[0], 'common' if ((bad[0] % 4 == 0 and bad[0] % 100 != 0) or bad[0] % 400 == 0) else 'leap'),
             detail={'evaluated': 8200})


def _rng(s):
    if not s:
        return 'none'
    s = sorted(s)
    return '%d..%d' % (s[0], s[-1]) if s == list(range(s[0], s[-1] + 1)) else str(s[:6])


def _accepted_days(stmts, dayvar, env):
    """days 0..99 for which no day-only test in `stmts` (top level, incl. elif arms) leads to a raise"""
    acc = set()
    tests = []
    for s in stmts:
        if isinstance(s, ast.If):
            cur = s
            while True:
                if A.free_paths(cur.test) <= {dayvar} and _leads_to_reject_if(cur):
                    tests.append(cur.test)
                if len(cur.orelse) == 1 and isinstance(cur.orelse[0], ast.If):
                    cur = cur.orelse[0]
                else:
                    break
    if not tests:
        raise AnalysisError('no day-bound test found in a month-length arm')
    for d in range(0, 100):
        e = dict(env)
        e[dayvar] = d
        if not any(A.ev(t, e) for t in tests):
            acc.add(d)
    return acc


def _leads_to_reject_if(ifnode):
    return any(isinstance(s, ast.Raise) or (isinstance(s, ast.Return) and A.const(s.value) is False) for s in ifnode.body)


def _leads_to_reject(fn, cmp_node):
    """the If (or elif) whose test contains the compare has a rejecting body"""
    p = A.parent(cmp_node)
    while p is not None and not isinstance(p, ast.If):
        p = A.parent(p)
    return p is not None and _leads_to_reject_if(p)


# --------------------------------------------------------------------------- R4 accepted lengths
LEN_TOP = 14   # 14 stands for "14 or more"


def _accepting_lengths(ctx, fn, consts, concrete=False):
    """Abstract interpretation of `fn` over the original length of `val` (0..13, 14+) x `consts`
    (names fixed to constants).  A test whose value is closed under {len(val), consts} is decided, any other test
    is non-deterministic.  With concrete=True the value itself is '0'*L and digit-class selectors are modelled, which
    makes every test closed: used only to confirm a witness for an extra length."""
    g = ctx.cfg(fn)
    accepted = {}
    for L0 in range(0, LEN_TOP + 1):
        # state = (node id, current length)
        start = (g.entry.id, L0)
        seen = {start}
        st = [start]
        ok = False
        while st:
            nid, L = st.pop()
            nd = g.nodes[nid]
            succs = []
            newL = L
            if nd.kind == 'test':
                val = _eval_len_test(nd.ast, L, consts, concrete)
                for s, l in nd.succ:
                    if l == 'exc':
                        succs.append(s)
                    elif val is None or (val and l == 'T') or (not val and l == 'F'):
                        succs.append(s)
            else:
                if nd.kind == 'stmt' and isinstance(nd.ast, ast.Assign) and path_of(nd.ast.targets[0]) == 'val':
                    d = _prepend_len(nd.ast.value)
                    if d is None:
                        raise AnalysisError('%s: assignment to val not understood: %s' % (fn.name, norm(nd.ast)))
                    newL = min(L + d, LEN_TOP)
                if nd.kind == 'return' and A.const(nd.ast.value) is True:
                    ok = True
                for s, l in nd.succ:
                    if l == 'exc' and nd.kind not in ('raise',) and concrete:
                        continue
                    succs.append(s)
            for s in succs:
                k = (s.id, newL)
                if k not in seen:
                    seen.add(k)
                    st.append(k)
        accepted[L0] = ok
    return {L for L, ok in accepted.items() if ok}


def _prepend_len(v):
    return _prepend_len_of(v, 'val')


def _prepend_len_of(v, var):
    vals = [v.body, v.orelse] if isinstance(v, ast.IfExp) else [v]
    ds = set()
    for x in vals:
        if isinstance(x, ast.BinOp) and isinstance(x.op, ast.Add) and A.is_str(x.left) and path_of(x.right) == var:
            ds.add(len(x.left.value))
        else:
            return None
    return ds.pop() if len(ds) == 1 else None


class _Len(object):
    """stands for a string of which only the length is known"""
    def __init__(self, n):
        self.n = n

    def __len__(self):
        return self.n


def _eval_len_test(e, L, consts, concrete):
    env = dict(consts)
    if concrete:
        env['val'] = '0' * L
        funcs = {'not_match_re': lambda t, v, *a: not v.isdigit() and v != '', 'is_valid_time': lambda v: None}
    else:
        env['val'] = _Len(L)
        funcs = None
    try:
        if concrete and isinstance(e, ast.Call) and A.call_target(e)[1] in ('is_valid_time', 'is_valid_date', 'IsValidDataType'):
            return None
        v = A.ev(e, env, funcs)
        if L == LEN_TOP and not concrete:
            # 14 means ">= 14": a decided test must be decided the same way for a larger length
            env['val'] = _Len(LEN_TOP + 50)
            if bool(A.ev(e, env, funcs)) != bool(v):
                return None
        return bool(v)
    except (A.NotClosed, TypeError, AttributeError, IndexError):
        return None


def r4_lengths(ctx):
    tm = ctx.func('validation', 'is_valid_time')
    dt = ctx.func('validation', 'is_valid_date')
    cases = [('validation:is_valid_time lengths', tm, {}, {4, 6, 7, 8}),
             ('validation:is_valid_date[D8] lengths', dt, {'data_type': 'D8'}, {8}),
             ('validation:is_valid_date[D6] lengths', dt, {'data_type': 'D6'}, {6}),
             ('validation:is_valid_date[DT] lengths', dt, {'data_type': 'DT'}, {6, 8, 12})]
    for key, fn, consts, want in cases:
        got = _accepting_lengths(ctx, fn, consts)
        missing = sorted(want - got)
        extra = sorted(got - want)
        msgs = []
        if missing:
            msgs.append('length(s) %s can never be accepted (definite false rejection)' % missing)
        confirmed = []
        if extra:
            conc = _accepting_lengths(ctx, fn, consts, concrete=True)
            confirmed = [L for L in extra if L in conc]
            if confirmed:
                msgs.append('length(s) %s are accepted: witness %s passes every non-length test'
                            % (confirmed, ', '.join(repr('0' * L) for L in confirmed[:4])))
        ok = not missing and not confirmed
        yield Ob(key, ok, ctx.floc(fn), '; '.join(msgs),
                 detail={'abstract_accepting_lengths': sorted(got), 'required': sorted(want), 'unconfirmed_extra': [L for L in extra if L not in confirmed]},
                 note=None if ok and not extra else 'abstract set %s' % sorted(got))


# --------------------------------------------------------------------------- R5 dispatcher
def r5_dispatch(ctx):
    fn = ctx.func('validation', 'IsValidDataType')
    trys = [s for s in fn.body if isinstance(s, ast.Try)]
    if len(trys) != 1:
        raise AnalysisError('IsValidDataType: try block not found')
    # (the chain may sit under a guard on the kind of data_type: every statement list of the try body is searched)
    arms = list(A.branch_chain_all(ast.Module(body=trys[0].body, type_ignores=[]), lambda e: norm(e) in ('data_type', 'data_type[0]')))
    if not arms:
        raise AnalysisError('IsValidDataType: dispatch on data_type not found')
    from ..absint import explore as _ex
    g0 = ctx.cfg(fn)

    def _verdicts(dt):
        funcs = {'match_re': lambda *a_: True, 'not_match_re': lambda *a_: False, 'is_valid_date': lambda *a_: True, 'is_valid_time': lambda *a_: True,
                 'isinstance': lambda *a_: True}
        outs = []

        def on_node(nd, env):
            if nd.kind == 'return':
                try:
                    outs.append(bool(A.ev(nd.ast.value, env, funcs)) if nd.ast.value is not None else None)
                except (A.NotClosed, TypeError):
                    outs.append('?')
        _ex(g0, {'data_type': dt, 'str_val': 'X', 'string_types': str, 'charset': 'B', 'icvn': '00401'}, funcs=funcs, on_node=on_node)
        return set(outs)
    bad_u = [dt for dt in ('ZZ', 'X9', 'D7', 'r') if _verdicts(dt) != {False}]
    ok = not bad_u and _verdicts('B') == {True}
    yield Ob('validation:IsValidDataType unknown type is rejected', ok, ctx.floc(fn),
             '' if ok else ('a value of the unknown type %s is accepted' % bad_u[0] if bad_u else 'binary (B) values are rejected'))
    labels = {a[0] for a in arms if a[0] not in (None, '?')}
    need = {'N', 'R', 'ID', 'AN', 'RD8', 'DT', 'D8', 'D6', 'TM'}
    ok = need <= labels
    yield Ob('validation:IsValidDataType dispatches every X12 type', ok, ctx.floc(fn),
             '' if ok else 'no branch for %s' % sorted(need - labels))
    # the verdict for a type is exactly the verdict of its recogniser (negated for the "contains an invalid character"
    # recogniser): decided by constant propagation through the function with the recognisers as oracles
    from ..absint import explore
    g = ctx.cfg(fn)
    ORACLE = {'N': ('match_re', False), 'N0': ('match_re', False), 'R': ('match_re', False), 'ID': ('not_match_re', True), 'AN': ('not_match_re', True),
              'DT': ('is_valid_date', False), 'D8': ('is_valid_date', False), 'D6': ('is_valid_date', False), 'TM': ('is_valid_time', False)}
    for lab, (callee, negate) in sorted(ORACLE.items()):
        bad = []
        for answer in (True, False):
            funcs = {'match_re': lambda *a_: None, 'not_match_re': lambda *a_: None, 'is_valid_date': lambda *a_: None, 'is_valid_time': lambda *a_: None,
                     'isinstance': lambda *a_: True}
            funcs[callee] = lambda *a_, r_=answer: r_
            outs = []

            def on_node(nd, env, funcs=funcs):
                if nd.kind == 'return':
                    try:
                        outs.append(A.ev(nd.ast.value, env, funcs) if nd.ast.value is not None else None)
                    except (A.NotClosed, TypeError):
                        outs.append('?')
            try:
                explore(g, {'data_type': lab, 'str_val': 'X', 'string_types': str, 'charset': 'B', 'icvn': '00401'}, funcs=funcs, on_node=on_node)
            except RuntimeError as e:
                raise AnalysisError('IsValidDataType: %s' % e)
            vals = {bool(o) if o != '?' else '?' for o in outs}
            want = (not answer) if negate else answer
            if vals != {want}:
                bad.append('%s(...) = %s gives %s' % (callee, answer, sorted(map(str, vals))))
        yield Ob('validation:IsValidDataType[%s] failed recogniser rejects' % lab, not bad, ctx.floc(fn),
                 '' if not bad else 'the verdict for type %s is not that of %s: %s' % (lab, callee, '; '.join(bad)))
    # RD8 = two D8 dates joined by exactly one hyphen: decided by constant propagation through the function for values with
    # 0, 1, 2 and 3 hyphens, the recursive call answered by an oracle per half
    def rd8(val, answers):
        asked = []

        def oracle(v_, t_, *rest):
            asked.append((v_, t_))
            return answers.get(v_, False)
        funcs = {'match_re': lambda *a_: None, 'not_match_re': lambda *a_: None, 'is_valid_date': lambda *a_: None, 'is_valid_time': lambda *a_: None,
                 'isinstance': lambda *a_: True, 'IsValidDataType': oracle}
        outs = []

        def on_node(nd, env):
            if nd.kind == 'return':
                try:
                    outs.append(bool(A.ev(nd.ast.value, env, funcs)) if nd.ast.value is not None else None)
                except (A.NotClosed, TypeError, ValueError):
                    outs.append('?')

        def unk(nd, env):
            raise AnalysisError('IsValidDataType[RD8]: a test cannot be decided for the value %r: %s' % (val, norm(nd.ast)))
        try:
            explore(g, {'data_type': 'RD8', 'str_val': val, 'string_types': str, 'charset': 'B', 'icvn': '00401'}, funcs=funcs, on_node=on_node, on_unknown=unk)
        except RuntimeError as e:
            raise AnalysisError('IsValidDataType: %s' % e)
        return set(outs), asked
    bad_h = []
    for val in ('X', '', 'A-B-C', 'A-B-C-D', '--'):
        outs, _asked = rd8(val, {'A': True, 'B': True, 'C': True, 'D': True, 'X': True, '': True})
        if outs != {False}:
            bad_h.append('%r gives %s' % (val, sorted(map(str, outs))))
    rej = not bad_h
    yield Ob('validation:IsValidDataType[RD8] value without hyphen is rejected', rej, ctx.floc(fn),
             '' if rej else 'a value that is not two parts joined by one hyphen is not rejected: %s' % bad_h[0])
    bad_b = []
    halves_ok = True
    for ansA, ansB in ((True, True), (True, False), (False, True), (False, False)):
        outs, asked = rd8('A-B', {'A': ansA, 'B': ansB})
        if outs != {ansA and ansB}:
            bad_b.append('halves valid=%s/%s give %s' % (ansA, ansB, sorted(map(str, outs))))
        if ansA and ansB and sorted(asked) != [('A', 'D8'), ('B', 'D8')]:
            halves_ok = False
    yield Ob('validation:IsValidDataType[RD8] validates both halves as D8', halves_ok, ctx.floc(fn),
             '' if halves_ok else 'for the value A-B the recogniser is asked %s' % sorted(asked))
    yield Ob('validation:IsValidDataType[RD8] both halves must be valid', not bad_b, ctx.floc(fn), '' if not bad_b else bad_b[0])


def r6_pure_recognisers(ctx):
    """a recogniser answers for (string, type, character set, version) and nothing else: the validating modules keep no
    module- or class-level object that a call fills, and remember no answer across calls (a memo keyed by less than all
    four answers one version with another's verdict).  C15.R9 / C18.R2 (shared)."""
    from . import c15
    for o in c15.validator_keeps_no_state(ctx):
        yield o


RULES = [
    Rule('C13.R6', 'shared with C15.R9/C18.R2: the recognisers keep no state and cache nothing across calls', r6_pure_recognisers, floor=8),
    Rule('C13.R1', 'regex constants equal the X12 value languages (DFA equivalence); wrappers and selector tables sound', r1_languages, floor=15),
    Rule('C13.R2', 'no exception can leave IsValidDataType (unpack arity, int(), explicit raises, indexing)', r2_never_raises, floor=6),
    Rule('C13.R3', 'field atoms: hour/minute/second/month/year/day bounds and the leap rule equal the calendar', r3_atoms, floor=15),
    Rule('C13.R4', 'accepted lengths: time {4,6,7,8}, D8 {8}, D6 {6}, DT {6,8,12}', r4_lengths, floor=3),
    Rule('C13.R5', 'dispatcher total: rejecting else, every type dispatched, RD8 = two D8 joined by one hyphen', r5_dispatch, floor=6),
]
