"""C06 Every acknowledgement written is itself a complete, well-formed interchange."""
import ast

from ..core import require_idiom, Ob, Rule, AnalysisError, norm, KeyMaker
from ..cfg import path_of, must_facts, has
from .. import astutil as A

META = {
    'explanation': (
        'R1 in error_997 the only write to the output stream is inside _write (so the hand-kept segment counter sees '
        'every segment) and in error_999 nothing writes to self.fd - everything goes through X12Writer.Write. R2 the '
        'GS08/ST03 version each visitor writes is a constant that maps.xml maps (fic FA) to an existing 997/999 map '
        'whose own GS08 code list contains it. R3 (taint) every value copied from the input into an acknowledgement '
        'segment (Segment(text), append, set) must pass a sanitiser that removes the three output delimiters; sources '
        'and sinks are enumerated from the visitors. R4 no partial output: because x12n_document swallows visitor '
        'exceptions, inside the visitors (a) every lookup in a local dict literal with a non-constant key is guarded '
        'by `in`/.get, (b) every result of get_value()/tree field that may be None is dereferenced only under a '
        'guard, (c) no explicit raise is reachable for well-formed trees. R5 st_control_num is only incremented, once '
        'per visit_gs_pre, and formatted identically into ST02 and SE02. R6 the 997 segment counter: _write '
        'increments it exactly once per segment, visit_gs_pre resets it to 1 after writing ST, SE01 is the counter + 1 '
        'taken before SE is written; GE/IEA counts come from the loop counters.'),
    'not_decided': 'that counts equal the segments present for every tree; acceptance of the acknowledgement on re-validation',
    'trusted_base': ['enumerated source list (tree fields copied from input) in sa/rules/c06.py', 'maps.xml + 997/999 maps as oracle for R2'],
    'technique': 'static analysis: who-may-write, code<->index agreement, intraprocedural taint with sanitiser, must-fact guards',
}


META['explanation'] += ' Rounds 4-5: ' + 'R6 reads the values interpolated into the GE / IEA templates (%, str.format or f-string): GE02 must be read back from the GS written.'

VISITORS = (('error_997', 'error_997_visitor'), ('error_999', 'error_999_visitor'))


def r1_who_writes(ctx):
    for mod, cname in VISITORS:
        cls = ctx.cls(mod, cname)
        for f in cls.body:
            if not isinstance(f, ast.FunctionDef):
                continue
            for c in A.calls_in(f):
                r, m = A.call_target(c)
                if m in ('write', 'writelines') and r == 'self.fd':
                    ok = cname == 'error_997_visitor' and f.name == '_write'
                    yield Ob('%s:%s.%s writes to the output stream' % (mod, cname, f.name), ok, ctx.loc(mod, c),
                             '' if ok else ('997: only _write may write (the SE count would miss this segment)' if cname == 'error_997_visitor'
                                            else '999: all output must go through X12Writer.Write (trailers and counts are generated there)'))
    f = ctx.func('error_997', 'error_997_visitor._write')
    incs = [n for n in ast.walk(f) if isinstance(n, ast.AugAssign) and path_of(n.target) == 'self.seg_count']
    ok = len(incs) == 1 and isinstance(incs[0].op, ast.Add) and A.const(incs[0].value) == 1 and incs[0] in f.body
    yield Ob('error_997:error_997_visitor._write counts each written segment once', ok, ctx.floc(f), '' if ok else 'seg_count increment changed')
    # 999: the writer is constructed on the same stream with constant delimiters
    f = ctx.func('error_999', 'error_999_visitor.__init__')
    wr = [c for c in A.calls_in(f) if A.call_target(c)[1] == 'X12Writer']
    ok = len(wr) == 1 and path_of(wr[0].args[0]) == 'fd' and all(isinstance(a, ast.Constant) for a in wr[0].args[1:])
    yield Ob('error_999:error_999_visitor.__init__ X12Writer(fd, constant delimiters)', ok, ctx.floc(f), '' if ok else 'writer construction changed')
    # positive control: the rule must see the 997 write
    cls = ctx.cls('error_997', 'error_997_visitor')
    n = sum(1 for c in A.calls_in(cls) if A.call_target(c) == ('self.fd', 'write'))
    if n < 1:
        raise AnalysisError('error_997_visitor no longer writes to self.fd: who-may-write rule would be vacuous')


def _resolve_const(ctx, mod, cname, fn, e):
    """constant value of an expression: literal, self.<attr> assigned a literal in __init__, local assigned a literal"""
    if isinstance(e, ast.Constant):
        return e.value
    p = path_of(e)
    if p and p.startswith('self.'):
        init = ctx.func(mod, cname + '.__init__')
        vals = [s.value for s in ast.walk(init) if isinstance(s, ast.Assign) and path_of(s.targets[0]) == p]
        if len(vals) == 1 and isinstance(vals[0], ast.Constant):
            return vals[0].value
    if isinstance(e, ast.Name):
        vals = [s.value for s in ast.walk(fn) if isinstance(s, ast.Assign) and path_of(s.targets[0]) == e.id]
        if len(vals) == 1 and isinstance(vals[0], ast.Constant):
            return vals[0].value
    return None


def _seg_values(fn, segvar, segid=None):
    """{element position: value expr} of the LAST segment built in fn by append()/set() calls (source order, top-level
    statements).  The segment is named by the variable that holds it, or - `segid` - by the id of the literal it is
    built from, whatever the variable is called."""
    out = {}
    n = 0
    cur = segvar
    for s in fn.body:
        if isinstance(s, ast.Assign) and isinstance(s.value, ast.Call) and s.value.args and A.is_str(s.value.args[0]) \
                and A.call_target(s.value)[1] == 'Segment':
            text = s.value.args[0].value
            if (segid is None and path_of(s.targets[0]) == segvar) or (segid is not None and text.split('*')[0] == segid):
                cur = path_of(s.targets[0])
                n = len(text.split('*')) - 1
                out = {}
            elif segid is not None and path_of(s.targets[0]) == cur:
                cur = None       # the variable now holds another segment
        elif isinstance(s, ast.Expr) and isinstance(s.value, ast.Call) and cur is not None and A.call_target(s.value)[0] == cur:
            c = s.value
            if A.call_target(c)[1] == 'append':
                n += 1
                out[n] = c.args[0]
            elif A.call_target(c)[1] == 'set':
                rd = A.const(c.args[0])
                if isinstance(rd, str) and rd[-2:].isdigit():
                    out[int(rd[-2:])] = c.args[1]
    return out


def r2_version_keys(ctx):
    ms = ctx.maps
    specs = [('error_997', 'error_997_visitor', '997.4010.xml', '00401'), ('error_999', 'error_999_visitor', '999.5010.xml', '00501')]
    for mod, cname, _, icvn in specs:
        f = ctx.func(mod, cname + '.visit_root_pre')
        vals = _seg_values(f, 'gs_seg', 'GS')
        e = vals.get(8)
        key = '%s:%s.visit_root_pre GS08' % (mod, cname)
        if e is None:
            raise AnalysisError(key + ' not found')
        v = _resolve_const(ctx, mod, cname, f, e)
        if v is None:
            yield Ob(key + ' is a version constant', False, ctx.floc(f, e),
                     'GS08 is written from `%s`, which is not a constant version key (the interchange version is not a GS08 value): '
                     're-validating the acknowledgement raises "Map not found"' % norm(e))
            continue
        yield Ob(key + ' is a version constant', True, ctx.floc(f, e))
        ent = [x for x in ms.index if x['icvn'] == icvn and x['vriic'] == v and x['fic'] == 'FA']
        ok = len(ent) >= 1
        yield Ob(key + ' %s selectable through maps.xml' % v, ok, 'pyx12/map/maps.xml',
                 '' if ok else 'no index entry (icvn=%s, vriic=%s, fic=FA)' % (icvn, v))
        if ok:
            m = ms.map(ent[0]['file'])
            gs = ms.getnodebypath(m, '/ISA_LOOP/GS_LOOP/GS') if m else None
            codes = gs.children[7].codes if gs is not None and len(gs.children) > 7 else None
            ok2 = codes is not None and (not codes or v in codes)
            yield Ob(key + ' %s accepted by %s' % (v, ent[0]['file']), ok2, 'pyx12/map/' + ent[0]['file'],
                     '' if ok2 else 'GS08 code list %s does not contain it' % codes)
        e1 = vals.get(1)
        ok = A.const(e1) == 'FA'
        yield Ob('%s:%s.visit_root_pre GS01 is FA' % (mod, cname), ok, ctx.floc(f), '' if ok else 'GS01 is %s' % norm(e1))
    # 999: ST03 must be the same constant as GS08
    f = ctx.func('error_999', 'error_999_visitor.visit_gs_pre')
    st = _seg_values(f, 'st_seg', 'ST')
    g8 = _resolve_const(ctx, 'error_999', 'error_999_visitor', f, _seg_values(ctx.func('error_999', 'error_999_visitor.visit_root_pre'), 'gs_seg', 'GS').get(8))
    s3 = _resolve_const(ctx, 'error_999', 'error_999_visitor', f, st.get(3)) if st.get(3) is not None else None
    ok = s3 is not None and s3 == g8
    yield Ob('error_999:error_999_visitor.visit_gs_pre ST03 = GS08 constant', ok, ctx.floc(f), '' if ok else 'ST03 %r vs GS08 %r' % (s3, g8))


# --------------------------------------------------------------------------- R3 taint
# tree fields copied from the input (ele_ref_num is NOT one: it is the map's data element number)
SOURCE_FIELDS = {'fic', 'gs_control_num', 'vriic', 'trn_set_id', 'trn_set_control_num', 'seg_id', 'ls_id',
                 'isa_trn_set_id', 'orig_date', 'orig_time'}
# get_value() results that cannot be None, with the reason (re-checked by R4: the guard must still exist)
NOT_NONE_DESIGNATORS = {
    'GS': 8,   # x12n_document raises EngineError("Map not found") before add_gs_loop unless GS01 and GS08 are present,
               # so every GS segment stored in the error tree has at least 8 elements
    'ISA': 16,  # X12Base._parse_segment raises X12Error unless the ISA has exactly 16 elements
}
def _source_names(f):
    """names bound to the offending value of an element error: third component of the items of `<x>.errors`"""
    out = set()
    for n in ast.walk(f):
        if isinstance(n, (ast.For, ast.comprehension)) and isinstance(n.target, ast.Tuple) and len(n.target.elts) >= 3 \
                and (path_of(n.iter) or '').endswith('.errors') and isinstance(n.target.elts[2], ast.Name):
            out.add(n.target.elts[2].id)
    return out


def _tainted(e, tainted_locals, source_names=()):
    """does expression e carry input text?  returns a description of the source that does not depend on the names of
    local variables (the designator read, the tree field, 'error value') or None"""
    for n in ast.walk(e):
        if isinstance(n, ast.Call) and A.call_target(n)[1] == 'get_value':
            d = A.const(n.args[0]) if n.args else None
            return d if isinstance(d, str) else norm(n)
        if isinstance(n, ast.Attribute) and n.attr in SOURCE_FIELDS and (path_of(n.value) or '').startswith('err'):
            return 'tree field ' + n.attr
        if isinstance(n, ast.Name) and n.id in source_names:
            return 'error value'
        if isinstance(n, ast.Name) and n.id in tainted_locals:
            return tainted_locals[n.id]
    return None


def _sink_segment(f, recv):
    """segment id of the acknowledgement segment a receiver variable holds (from the literal it was built from)"""
    for s in ast.walk(f):
        if isinstance(s, ast.Assign) and path_of(s.targets[0]) == recv and isinstance(s.value, ast.Call) \
                and A.call_target(s.value)[1] == 'Segment' and s.value.args:
            a = s.value.args[0]
            while isinstance(a, ast.BinOp):
                a = a.left
            if A.is_str(a):
                return a.value.split('*')[0]
            if isinstance(a, ast.Call) and A.call_target(a)[1] == 'format' and isinstance(a.func, ast.Attribute) and path_of(a.func.value):
                return _sink_segment(f, path_of(a.func.value))
            if isinstance(a, ast.Name):
                for s2 in ast.walk(f):
                    if isinstance(s2, ast.Assign) and path_of(s2.targets[0]) == a.id and isinstance(s2.value, ast.Call) \
                            and A.call_target(s2.value)[1] == 'format' and isinstance(s2.value.func, ast.Attribute) and path_of(s2.value.func.value):
                        return _sink_segment(f, path_of(s2.value.func.value))
    return recv


def _sanitised(ctx, e):
    """the whole expression is a call to a sanitiser: a function of the module whose body replaces all three output delimiters"""
    if isinstance(e, ast.Call):
        r, m = A.call_target(e)
        if m and 'clean' in m.lower() or (m and 'sanit' in m.lower()):
            return True
    return False


def r3_echo_taint(ctx):
    km = KeyMaker()
    for mod, cname in VISITORS:
        cls = ctx.cls(mod, cname)
        for f in cls.body:
            if not isinstance(f, ast.FunctionDef):
                continue
            tainted = {}
            srcn = _source_names(f)
            # one forward pass over simple assignments (source order) for locals
            for s in ast.walk(f):
                if isinstance(s, ast.Assign) and isinstance(s.targets[0], ast.Name):
                    src = _tainted(s.value, tainted, srcn)
                    if src and not _sanitised(ctx, s.value):
                        # a Segment object built from tainted text is not itself a text value
                        if isinstance(s.value, ast.Call) and A.call_target(s.value)[1] == 'Segment':
                            continue
                        if isinstance(s.value, ast.Call) and A.call_target(s.value)[1] == 'format' and not A.is_str(s.value.func.value):
                            continue
                        tainted[s.targets[0].id] = src
            for c in A.calls_in(f):
                r, m = A.call_target(c)
                arg = None
                kind = None
                if m == 'Segment' and c.args:
                    arg, kind = c.args[0], 'Segment(text)'
                elif m == 'append' and c.args and r and _sink_segment(f, r) != r:
                    arg, kind = c.args[0], '%s' % _sink_segment(f, r)     # (which call stores it - append or set(pos) - is not part of the finding)
                elif m == 'set' and len(c.args) == 2 and r and _sink_segment(f, r) != r:
                    arg, kind = c.args[1], '%s' % _sink_segment(f, r)
                if arg is None:
                    continue
                src = _tainted(arg, tainted, srcn)
                if src is None:
                    continue
                ok = _sanitised(ctx, arg)
                yield Ob(km('%s:%s.%s %s <- %s' % (mod, cname, f.name, kind, src)), ok, ctx.loc(mod, c),
                         '' if ok else 'input text `%s` is copied into an acknowledgement segment without removing the output '
                         'delimiters ~ * : - a value containing them adds or splits elements/segments' % src)


# --------------------------------------------------------------------------- R4 no partial output
def _conj(t):
    return list(t.values) if isinstance(t, ast.BoolOp) and isinstance(t.op, ast.And) else [t]


def _guarded_in_expression(x, truthy_of=None, member=None):
    """is the sub-expression x evaluated only when a guard inside the SAME expression holds?  truthy_of: text of a value
    that must be tested for truth / `is not None`; member: (key text, table name) that must be tested with `in`.
    Recognised: `x if G else d`, `G and x`, and `[x for .. if G]` (G may be a conjunction)."""
    def holds(t):
        for c in _conj(t):
            if truthy_of is not None and (norm(c) == truthy_of or norm(c) == '%s is not None' % truthy_of):
                return True
            if member is not None and isinstance(c, ast.Compare) and len(c.ops) == 1 and isinstance(c.ops[0], ast.In) \
                    and norm(c.left) == member[0] and path_of(c.comparators[0]) == member[1]:
                return True
        return False
    child, p = x, A.parent(x)
    while p is not None and not isinstance(p, ast.stmt):
        if isinstance(p, ast.IfExp) and child is p.body and holds(p.test):
            return True
        if isinstance(p, ast.BoolOp) and isinstance(p.op, ast.And) and child in p.values and any(holds(v) for v in p.values[:p.values.index(child)]):
            return True
        if isinstance(p, (ast.ListComp, ast.GeneratorExp, ast.SetComp)) and child is p.elt and any(holds(i_) for g_ in p.generators for i_ in g_.ifs):
            return True
        child, p = p, A.parent(p)
    return False


def r4_no_partial_output(ctx):
    km = KeyMaker()
    for o in current_nodes_stay_set(ctx):
        yield o
    for mod, cname in VISITORS:
        cls = ctx.cls(mod, cname)
        for f in cls.body:
            if not isinstance(f, ast.FunctionDef):
                continue
            f._qual = cname + '.' + f.name
            f._mod = ctx.mod(mod)
            g = ctx.cfg(f)
            IN = must_facts(g)
            dicts = {s.targets[0].id for s in ast.walk(f) if isinstance(s, ast.Assign) and isinstance(s.targets[0], ast.Name)
                     and isinstance(s.value, ast.Dict)}
            dom = g.dominators()
            for nd in g.nodes:
                for x in g.walk_exprs(nd):
                    # (a) dict literal lookups with a non-constant key
                    if isinstance(x, ast.Subscript) and isinstance(x.ctx, ast.Load) and isinstance(x.value, ast.Name) \
                            and x.value.id in dicts and not isinstance(x.slice, ast.Constant):
                        keytxt = norm(x.slice)
                        guarded = False
                        for d in dom[nd.id]:
                            t = g.nodes[d]
                            if t.kind == 'test' and isinstance(t.ast, ast.Compare) and isinstance(t.ast.ops[0], ast.In) \
                                    and norm(t.ast.left) == keytxt and path_of(t.ast.comparators[0]) == x.value.id:
                                # we must be on the T side
                                if any(l == 'T' and (s.id in dom[nd.id] or s.id == nd.id) for s, l in t.succ):
                                    guarded = True
                        guarded = guarded or _guarded_in_expression(x, member=(keytxt, x.value.id))
                        yield Ob(km('%s:%s.%s %s' % (mod, cname, f.name, norm(x))), guarded, ctx.floc(f, x),
                                 '' if guarded else 'lookup with a run-time key and no `in` guard: KeyError aborts the visitor and leaves a truncated acknowledgement')
                    # (b) method call on a value that may be None: get_value(...).m() / tree field .strip()
                    if isinstance(x, ast.Call) and isinstance(x.func, ast.Attribute) and x.func.attr in ('strip', 'rstrip', 'lstrip', 'upper', 'lower'):
                        recv = x.func.value
                        may_none = None
                        if isinstance(recv, ast.Call) and A.call_target(recv)[1] == 'get_value':
                            may_none = norm(recv)
                            rd = A.const(recv.args[0]) if recv.args else None
                            if isinstance(rd, str) and rd[-2:].isdigit() and int(rd[-2:]) <= NOT_NONE_DESIGNATORS.get(rd[:-2], 0):
                                may_none = None
                        p = path_of(recv)
                        if p and p.split('.')[-1] in SOURCE_FIELDS:
                            may_none = p
                        if may_none:
                            ok = p is not None and (has(IN[nd.id], 'NotNone', p) or _guarded_in_expression(x, truthy_of=p))
                            yield Ob(km('%s:%s.%s %s' % (mod, cname, f.name, norm(x))), ok, ctx.floc(f, x),
                                     '' if ok else '%s is None when the element is absent: AttributeError aborts the visitor '
                                     'and leaves a truncated acknowledgement' % may_none)
            # (c) explicit raises
            for n in ast.walk(f):
                if isinstance(n, ast.Raise):
                    # acceptable only under a test that the tree construction makes false: `x is None` on a field set in a constructor
                    par = A.parent(n)
                    cond = norm(par.test) if isinstance(par, ast.If) else '?'
                    reach = isinstance(par, ast.If) and isinstance(par.test, ast.Compare) and isinstance(par.test.ops[0], ast.Is) \
                        and A.const(par.test.comparators[0]) is None and (path_of(par.test.left) or '').split('.')[-1] in (SOURCE_FIELDS - {'trn_set_id', 'fic'})
                    yield Ob(km('%s:%s.%s raise under `%s`' % (mod, cname, f.name, cond)), not reach, ctx.floc(f, n), nontrivial=reach,
                             msg='' if not reach else 'the field is None whenever the input omits the element: the raise aborts the visitor '
                             'and leaves a truncated acknowledgement',
                             note=None if reach else 'explicit raise on a tree state the constructors exclude; cross-reference only')


def current_nodes_stay_set(ctx):
    """visit_root_pre writes the ISA of the acknowledgement and then reads errh.cur_gs_node (and cur_isa_node) without a
    test: once a group / interchange has been seen these fields must stay set for the rest of the run.  In err_handler
    they are None only from __init__; every other store binds a node (a reset at the next ISA makes an interchange
    without a group abort the visitor after the ISA is out: an acknowledgement of one segment)."""
    derefd = set()
    for mod, cname in VISITORS:
        cls = ctx.cls(mod, cname)
        for x in ast.walk(cls):
            if isinstance(x, ast.Attribute) and isinstance(x.value, ast.Attribute) and path_of(x.value) and path_of(x.value).startswith('errh.cur_'):
                derefd.add(path_of(x.value)[5:])
    if not derefd:
        raise AnalysisError('the visitors no longer read errh.cur_* nodes')
    eh = ctx.cls('error_handler', 'err_handler')
    for attr in sorted(derefd):
        bad = None
        for f in eh.body:
            if not isinstance(f, ast.FunctionDef) or f.name == '__init__':
                continue
            for st in ast.walk(f):
                if isinstance(st, ast.Assign) and any(path_of(t) == 'self.' + attr for t in st.targets) and isinstance(st.value, ast.Constant) and st.value.value is None:
                    bad = (f, st)
                if isinstance(st, ast.Delete) and any(path_of(t) == 'self.' + attr for t in st.targets):
                    bad = (f, st)
        yield Ob('error_handler:err_handler.%s is never cleared once set (the visitors dereference it unguarded)' % attr, bad is None,
                 ctx.loc('error_handler', bad[1]) if bad else 'pyx12/error_handler.py',
                 '' if bad is None else '%s clears it (`%s`): an input whose last interchange has no group makes visit_root_pre fail after the ISA '
                 'was written - the acknowledgement ends there' % (bad[0].name, norm(bad[1])))


# --------------------------------------------------------------------------- R5 / R6
def r5_st_control(ctx):
    for mod, cname in VISITORS:
        cls = ctx.cls(mod, cname)
        stores = []
        for f in cls.body:
            if isinstance(f, ast.FunctionDef):
                for n in ast.walk(f):
                    if isinstance(n, ast.Assign) and any(path_of(t) == 'self.st_control_num' for t in n.targets):
                        stores.append((f.name, n))
                    if isinstance(n, ast.AugAssign) and path_of(n.target) == 'self.st_control_num':
                        stores.append((f.name, n))
        inits = [(fn, n) for fn, n in stores if isinstance(n, ast.Assign)]
        incs = [(fn, n) for fn, n in stores if isinstance(n, ast.AugAssign)]
        ok = len(inits) == 1 and inits[0][0] == '__init__' and len(incs) == 1 and incs[0][0] == 'visit_gs_pre' \
            and isinstance(incs[0][1].op, ast.Add) and A.const(incs[0][1].value) == 1
        yield Ob('%s:%s st_control_num only incremented, once per group' % (mod, cname), ok, 'pyx12/%s.py' % mod,
                 '' if ok else 'stores: %s' % [(fn, norm(n)) for fn, n in stores])
        # same format into ST02 and SE02
        fmts = set()
        for f in cls.body:
            if isinstance(f, ast.FunctionDef):
                for n in ast.walk(f):
                    if isinstance(n, ast.BinOp) and isinstance(n.op, ast.Mod) and A.is_str(n.left) and 'self.st_control_num' in norm(n.right):
                        fmts.add(n.left.value.split('*')[-1])
        ok = len(fmts) == 1
        yield Ob('%s:%s ST02 and SE02 use one format for st_control_num' % (mod, cname), ok, 'pyx12/%s.py' % mod, '' if ok else 'formats %s' % sorted(fmts))


def r6_997_counter(ctx):
    f = ctx.func('error_997', 'error_997_visitor.visit_gs_pre')
    # after writing ST the counter is 1
    idx_w = [i for i, s in enumerate(f.body) if any(A.call_target(c) == ('self', '_write') and 'ST*997' in ast.unparse(c) for c in A.calls_in(s))]
    idx_r = [i for i, s in enumerate(f.body) if isinstance(s, ast.Assign) and path_of(s.targets[0]) == 'self.seg_count']
    ok = bool(idx_w) and bool(idx_r) and idx_r[-1] > idx_w[0] and A.const(f.body[idx_r[-1]].value) == 1
    yield Ob('error_997:error_997_visitor.visit_gs_pre counter is 1 after ST is written', ok, ctx.floc(f), '' if ok else 'reset/ST order changed')
    f = ctx.func('error_997', 'error_997_visitor.visit_gs_post')
    se = _seg_values(f, 'seg_data', 'SE')
    # the last built segment in the function is SE
    src = None
    e = se.get(1)
    if isinstance(e, ast.BinOp) and isinstance(e.op, ast.Mod) and A.is_str(e.left) and e.left.value in ('%i', '%d', '%s'):
        e = e.right
        if isinstance(e, ast.Tuple) and len(e.elts) == 1:
            e = e.elts[0]
    if isinstance(e, ast.Name):
        defs = [s.value for s in ast.walk(f) if isinstance(s, ast.Assign) and path_of(s.targets[0]) == e.id]
        e = defs[-1] if len(defs) == 1 else None
    if e is not None:
        src = A.canon(e)
    ok = src == '(1+self.seg_count)'
    yield Ob('error_997:error_997_visitor.visit_gs_post SE01 = counter + 1 (SE included)', ok, ctx.floc(f), '' if ok else 'SE01 source is %s' % src)
    f = ctx.func('error_997', 'error_997_visitor.visit_root_post')

    def template_args(fn, tag):
        """the values interpolated into the text of the one Segment whose template starts with `tag*`"""
        for c in A.calls_in(fn):
            if A.call_target(c)[1] != 'Segment' or not c.args:
                continue
            t = c.args[0]
            if isinstance(t, ast.BinOp) and isinstance(t.op, ast.Mod) and A.is_str(t.left) and t.left.value.startswith(tag + '*'):
                return list(t.right.elts) if isinstance(t.right, ast.Tuple) else [t.right]
            if isinstance(t, ast.Call) and isinstance(t.func, ast.Attribute) and t.func.attr == 'format' and A.is_str(t.func.value) \
                    and t.func.value.value.startswith(tag + '*'):
                return list(t.args)
            if isinstance(t, ast.JoinedStr) and t.values and isinstance(t.values[0], ast.Constant) and str(t.values[0].value).startswith(tag + '*'):
                return [v.value for v in t.values if isinstance(v, ast.FormattedValue)]
        return None
    ge = template_args(f, 'GE')
    require_idiom(ge is not None and len(ge) == 2, 'c06.py:324')
    # GE02 is read back from the GS that was written (self.gs_seg): the two cannot differ
    ok = norm(ge[0]) == 'self.st_loop_count' and norm(ge[1]) in ("self.gs_seg.get_value('GS06')", "self.gs_seg.get_value('06')")
    yield Ob('error_997:error_997_visitor.visit_root_post GE01 = st_loop_count, GE02 = GS06 written', ok, ctx.floc(f),
             '' if ok else 'GE is built from (%s, %s): GE02 must be the GS06 of the GS segment this acknowledgement wrote (self.gs_seg), '
             'any other source can differ from it (an input group left open shifts the error tree\'s group ids)' % (norm(ge[0]), norm(ge[1])))
    iea = template_args(f, 'IEA')
    require_idiom(iea is not None and len(iea) == 2, 'c06.py:326')
    ok = [norm(x) for x in iea] == ['self.gs_loop_count', 'self.isa_control_num']
    yield Ob('error_997:error_997_visitor.visit_root_post IEA01 = gs_loop_count, IEA02 = ISA13 written', ok, ctx.floc(f),
             '' if ok else 'IEA is built from %s' % [norm(x) for x in iea])
    # ISA13 written = isa_control_num
    f = ctx.func('error_997', 'error_997_visitor.visit_root_pre')
    vals = _seg_values(f, 'isa_seg', 'ISA')
    ok = 13 in vals and path_of(vals[13]) == 'self.isa_control_num'
    yield Ob('error_997:error_997_visitor.visit_root_pre ISA13 = isa_control_num', ok, ctx.floc(f), '' if ok else 'ISA13 is %s' % (norm(vals[13]) if 13 in vals else None))
    # a hand-kept counter is reset where the header that opens its scope is written, and nowhere else
    cls = ctx.cls('error_997', 'error_997_visitor')
    writes_header = {}
    for fdef in cls.body:
        if isinstance(fdef, ast.FunctionDef):
            for c in A.calls_in(fdef):
                if A.call_target(c)[1] == 'Segment' and c.args:
                    a0 = c.args[0]
                    while isinstance(a0, ast.BinOp):
                        a0 = a0.left
                    if A.is_str(a0):
                        writes_header.setdefault(a0.value.split('*')[0], set()).add(fdef.name)
    for counter, header in (('st_loop_count', 'GS'), ('seg_count', 'ST')):
        sites = sorted({fdef.name for fdef in cls.body if isinstance(fdef, ast.FunctionDef) and fdef.name != '__init__'
                        for st in ast.walk(fdef) if isinstance(st, ast.Assign) and path_of(st.targets[0]) == 'self.' + counter})
        want = sorted(writes_header.get(header, ()))
        ok = sites == want and len(want) == 1
        yield Ob('error_997:error_997_visitor %s is reset exactly where %s is written' % (counter, header), ok, 'pyx12/error_997.py',
                 '' if ok else '%s is reset in %s, the %s segment is written in %s: the trailer count would not cover the sets/segments written under that header' % (counter, sites, header, want))
    # st_loop_count incremented once per ST
    f = ctx.func('error_997', 'error_997_visitor.visit_gs_pre')
    incs = [n for n in ast.walk(f) if isinstance(n, ast.AugAssign) and path_of(n.target) == 'self.st_loop_count']
    ok = len(incs) == 1 and A.const(incs[0].value) == 1
    yield Ob('error_997:error_997_visitor.visit_gs_pre st_loop_count += 1 per ST', ok, ctx.floc(f), '' if ok else 'changed')


def _seg_literal_id(call):
    if isinstance(call, ast.Call) and A.call_target(call)[1] == 'Segment' and call.args:
        t = call.args[0]
        while isinstance(t, ast.BinOp):
            t = t.left
        # 'AK1*{}*{}'.format(..) and f'AK1*{a}*{b}' start with the same literal
        if isinstance(t, ast.Call) and isinstance(t.func, ast.Attribute) and t.func.attr == 'format' and A.is_str(t.func.value):
            t = t.func.value
        if isinstance(t, ast.JoinedStr) and t.values and isinstance(t.values[0], ast.Constant):
            t = t.values[0]
        if A.is_str(t):
            sid = t.value.split('*')[0]
            if sid and '{' not in sid and '%' not in sid:
                return sid
    return None


def _written_ids(f, g, nd, RD):
    """segment ids written by self._write(...) / self.wr.Write(...) calls at CFG node nd; a variable is resolved
    through the definitions that reach the call"""
    IN, DEFS = RD
    out = set()
    for x in g.walk_exprs(nd):
        if isinstance(x, ast.Call) and A.call_target(x) in (('self', '_write'), ('self.wr', 'Write')) and x.args:
            a = x.args[0]
            sid = _seg_literal_id(a)
            if sid:
                out.add(sid)
            elif isinstance(a, ast.Name):
                for d in (IN.get(nd.id) or {}).get(a.id, ()):
                    if d == -1:
                        continue
                    for nm, v in DEFS[d]:
                        if nm == a.id and v is not None and not isinstance(v, tuple):
                            sid = _seg_literal_id(v)
                            if sid:
                                out.add(sid)
            elif path_of(a):
                sid = _sink_segment(f, path_of(a))
                if sid != path_of(a):
                    out.add(sid)
    return out


def r7_envelope_writes_unconditional(ctx):
    """each hook writes its envelope segments on EVERY path to its normal exit: an acknowledgement whose ST/AK1 is
    skipped for some group while the matching AK9/SE is still written is not a well formed interchange"""
    want = {'error_997_visitor': {'visit_root_pre': ('ISA', 'GS'), 'visit_root_post': ('GE', 'IEA'), 'visit_gs_pre': ('ST', 'AK1'),
                                  'visit_gs_post': ('AK9', 'SE'), 'visit_st_pre': ('AK2',), 'visit_st_post': ('AK5',)},
            'error_999_visitor': {'visit_root_pre': ('ISA', 'GS'), 'visit_root_post': ('GE', 'IEA'), 'visit_gs_pre': ('ST', 'AK1'),
                                  'visit_gs_post': ('AK9', 'SE'), 'visit_st_pre': ('AK2',), 'visit_st_post': ('IK5',)}}
    for mod, cname in VISITORS:
        for hook, ids in sorted(want[cname].items()):
            f = ctx.func(mod, cname + '.' + hook)
            g = ctx.cfg(f)
            from ..cfg import reaching_defs
            RD = reaching_defs(g)
            writes = {nd.id: _written_ids(f, g, nd, RD) for nd in g.nodes}
            for sid in ids:
                req = {i_ for i_, w in writes.items() if sid in w}
                if not req:
                    yield Ob('%s:%s.%s writes %s on every path' % (mod, cname, hook, sid), False, ctx.floc(f), 'no write of a %s segment found' % sid)
                    continue
                path = g.find_path(g.entry, lambda n: n is g.exit, blocked=lambda n: n.id in req)
                yield Ob('%s:%s.%s writes %s on every path' % (mod, cname, hook, sid), path is None, ctx.floc(f),
                         '' if path is None else 'the hook can finish without writing %s (through line %s) while the other hooks still write '
                         'their part of the envelope' % (sid, [n.lineno for n in path if n.lineno][-1:]),
                         detail={'path': [repr(n) for n in (path or [])][-5:]})


def r8_shared_writer_counts(ctx):
    """the 999 is written through X12Writer, which regenerates SE/GE/IEA from its own counters: the trailer counts of
    the acknowledgement are the obligations of C11.R2"""
    from . import c11
    for o in c11.r2_counts(ctx):
        yield o


def r9_optional_fields_guarded_by_themselves(ctx):
    """a field of the error tree that may be absent (None: the element was not sent) is written into an acknowledgement
    segment only under a test of that very field: `if X is not None: seg.set(pos, Y)` must have Y = X.  Testing another
    object's field of the same name (the visitor's constant instead of the set's ST03) lets None reach Segment.set, which
    raises; the exception is caught and logged by the driver and the acknowledgement ends after the segments written so
    far - an interchange without its trailers."""
    n = 0
    for mod, cname in VISITORS:
        cls = ctx.cls(mod, cname)
        for f in cls.body:
            if not isinstance(f, ast.FunctionDef):
                continue
            for st in ast.walk(f):
                if not (isinstance(st, ast.If) and isinstance(st.test, ast.Compare) and len(st.test.ops) == 1 and isinstance(st.test.ops[0], ast.IsNot)
                        and isinstance(st.test.comparators[0], ast.Constant) and st.test.comparators[0].value is None and not st.orelse):
                    continue
                guarded = norm(st.test.left)
                stores = []
                for b in st.body:
                    if isinstance(b, ast.Expr) and isinstance(b.value, ast.Call) and A.call_target(b.value)[1] in ('set', 'append') and b.value.args:
                        stores.append(b.value.args[-1])
                    else:
                        stores = None
                        break
                if not stores:
                    continue
                n += 1
                bad = [norm(v) for v in stores if guarded not in norm(v)]
                yield Ob('%s:%s.%s `if %s is not None` guards the value it stores' % (mod, cname, f.name, guarded), not bad, ctx.loc(mod, st),
                         '' if not bad else 'the test is on %s but the value written is %s: when that one is None, Segment.set raises and the '
                         'acknowledgement is cut off without its trailers' % (guarded, bad[0]))
    if n < 1:
        raise AnalysisError('no guarded optional field found in the visitors: the rule no longer matches the code')


def r10_code_lists_fit_their_segment(ctx):
    """a 999 that is written is accepted when fed back: IK5 and AK9 carry their syntax error codes in a fixed number of
    elements (the 999 maps define IK501-IK506 and AK901-AK909), so however many codes a set or group collected, the
    segment written has no more elements than its map definition - decided by constant propagation through
    visit_st_post / visit_gs_post with seven codes collected, against the element counts read from the shipped 999 maps;
    (which values are appended is not judged here: the fixed leading elements may be appended too)."""
    from ..absint import traces, NotClosedTest
    from . import datarules as D
    limits = {}
    for f in ('999.5010.xml', '999.5010X231.A1.xml'):
        for n in D.all_nodes(ctx, [f]):
            if n.kind == 'segment' and n.id in ('IK5', 'AK9'):
                limits.setdefault(n.id, []).append(len([c for c in n.children if c.kind in ('element', 'composite')]))
    if set(limits) != {'IK5', 'AK9'}:
        raise AnalysisError('999 maps: IK5 / AK9 definitions not found (%s)' % sorted(limits))
    codes = ('1', '2', '3', '4', '5', '6', '7')
    for meth, sid, model in (('visit_st_post', 'IK5', A.Model('err_st', ack_code='R')),
                             ('visit_gs_post', 'AK9', A.Model('err_gs', ack_code='R', st_count_orig=2, st_count_recv=2, count_failed_st=lambda: 1))):
        fn = ctx.func('error_999', 'error_999_visitor.' + meth)
        oracle = lambda *_a: codes
        funcs = {'self.__get_st_errors': oracle, 'self._error_999_visitor__get_st_errors': oracle, 'self.__get_gs_errors': oracle,
                 'self._error_999_visitor__get_gs_errors': oracle}
        made = []

        def seg_ctor(text, *a, made=made):
            made.append(text)
            return A.Model('seg%d' % len(made), text=text)
        funcs['pyx12.segment.Segment'] = funcs['Segment'] = funcs['segment.Segment'] = seg_ctor

        def key(c):
            r, m = A.call_target(c)
            return (m + '@recv') if m in ('set', 'append') else None
        env0 = dict(A.module_constants(ctx.mod('error_999').tree))
        env0[fn.args.args[1].arg] = model
        try:
            res = traces(ctx.cfg(fn), env0, key, funcs)
        except (NotClosedTest, RuntimeError) as e:
            raise AnalysisError('error_999_visitor.%s cannot be decided: %s' % (meth, e))
        msg = ''
        for tr, _e in res:
            segs = {}
            for k_, a_ in tr:
                recv = a_[0]
                text = getattr(recv, 'text', None)
                if not isinstance(text, str):
                    continue
                st_ = segs.setdefault(id(recv), {'id': text.split('*')[0], 'n': len(text.split('*')) - 1, 'app': []})
                if k_.startswith('set') and isinstance(a_[1], str) and a_[1][-2:].isdigit():
                    st_['n'] = max(st_['n'], int(a_[1][-2:]))
                elif k_.startswith('append'):
                    st_['n'] += 1
                    st_['app'].append(a_[1])
            mine = [v for v in segs.values() if v['id'] == sid]
            if len(mine) != 1:
                raise AnalysisError('error_999_visitor.%s: the %s segment it builds was not recognised' % (meth, sid))
            lim = min(limits[sid])
            if mine[0]['n'] > lim:
                msg = 'with %d codes collected the %s written has %d elements, the 999 map defines %d: fed back it is rejected (too many elements)' % (len(codes), sid, mine[0]['n'], lim)
        yield Ob('error_999:error_999_visitor.%s writes no more %s elements than the 999 map defines' % (meth, sid), not msg, ctx.floc(fn), msg)


RULES = [
    Rule('C06.R9', 'an optional tree field is written under a test of that same field', r9_optional_fields_guarded_by_themselves, floor=1),
    Rule('C06.R1', 'who may write to the acknowledgement stream', r1_who_writes, floor=2),
    Rule('C06.R2', 'GS08/ST03 written are constants selectable through maps.xml and accepted by the 997/999 map', r2_version_keys, floor=3),
    Rule('C06.R3', 'input text reaches acknowledgement segments only through a delimiter sanitiser (taint)', r3_echo_taint, floor=15),
    Rule('C06.R4', 'no partial output: guarded dict lookups, guarded None dereferences in the visitors', r4_no_partial_output, floor=2),
    Rule('C06.R5', 'set control numbers: incremented once per group, one format', r5_st_control, floor=3),
    Rule('C06.R10', '999: IK5 / AK9 never carry more elements than the 999 maps define, however many codes were collected (constant propagation + map data)', r10_code_lists_fit_their_segment, floor=2),
    Rule('C06.R6', '997 hand-kept counters: ST resets, SE = count+1, GE/IEA from loop counters', r6_997_counter, floor=6),
    Rule('C06.R7', 'every hook writes its envelope segments on every path to its normal exit', r7_envelope_writes_unconditional, floor=14),
    Rule('C06.R8', 'shared with C11.R2: trailers regenerated by X12Writer carry the counters the reader compares', r8_shared_writer_counts, floor=10),
]
