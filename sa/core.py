"""Core of the static analyser: context, obligations, known findings, evidence.

Nothing here imports or executes pyx12.  Everything a rule needs from the
repository is read through `Ctx` (python sources via `ast`, XML via
`xml.etree`).
"""
import ast
import hashlib
import re
import json
import os
import sys
import time
import warnings

VERIF = os.path.dirname(os.path.dirname(os.path.abspath(__file__)))
DEFAULT_REPO = '/repo'


class AnalysisError(Exception):
    """The analysis itself cannot be carried out (vanished anchor, parse error,
    instance count below the hand-confirmed floor).  Exit code 2, never a
    pass and never a violation."""


def require_idiom(ok, tag):
    """for obligations that are decided by recognising a source idiom: when the idiom is not found the honest answer is
    'cannot decide' (ANALYSIS-ERROR, exit 2), not a violation - a behaviour-preserving rewrite must never be accused"""
    if not ok:
        raise AnalysisError('source idiom behind obligation %s is not recognised any more: cannot decide it on this tree' % tag)


class Ob(object):
    """One obligation instance examined by a rule."""
    __slots__ = ('rule', 'key', 'ok', 'where', 'msg', 'detail', 'nontrivial', 'note')

    def __init__(self, key, ok, where, msg='', detail=None, nontrivial=True, note=None):
        self.rule = None
        self.key = key
        self.ok = bool(ok)
        self.where = where
        self.msg = msg
        self.detail = detail
        self.nontrivial = nontrivial
        self.note = note

    def as_dict(self):
        d = {'rule': self.rule, 'key': self.key, 'verdict': 'ok' if self.ok else 'FAIL',
             'where': self.where}
        if self.msg:
            d['msg'] = self.msg
        if self.detail is not None:
            d['detail'] = self.detail
        if self.note:
            d['note'] = self.note
        return d


class Rule(object):
    def __init__(self, rid, text, func, floor=1, tier='quick'):
        self.id = rid
        self.text = text
        self.func = func
        self.floor = floor      # minimum number of instances confirmed by hand
        self.tier = tier        # 'quick' (always) or 'thorough' (thorough only)


# ---------------------------------------------------------------------------
# source access
# ---------------------------------------------------------------------------

class Module(object):
    def __init__(self, name, path, relpath, src, tree):
        self.name = name        # 'x12file', 'scripts.x12norm'
        self.path = path
        self.relpath = relpath  # 'pyx12/x12file.py'
        self.src = src
        self.tree = tree
        self.lines = src.splitlines()
        for n in ast.walk(tree):
            for c in ast.iter_child_nodes(n):
                if not isinstance(c, (ast.expr_context, ast.operator, ast.unaryop, ast.boolop, ast.cmpop)):
                    c._parent = n


class Ctx(object):
    """Analysis context for one run against one tree."""

    def __init__(self, repo=DEFAULT_REPO, tier='quick'):
        self.repo = os.path.abspath(repo)
        self.pkg = os.path.join(self.repo, 'pyx12')
        self.tier = tier
        self._mods = {}
        self._cfgs = {}
        self._flat = {}
        self._cache = {}
        self.consulted = set()
        self.normalise = os.environ.get('SA_NO_NORMALISE') != '1'
        self.norm_stats = {}
        self.stats = {'files_parsed': 0, 'functions_seen': 0, 'cfg_built': 0, 'cfg_nodes': 0}
        if not os.path.isdir(self.pkg):
            raise AnalysisError('package directory %s not found' % self.pkg)

    # -- modules
    def module_names(self, include_tests=False):
        out = []
        for root, dirs, files in os.walk(self.pkg):
            dirs.sort()
            rel = os.path.relpath(root, self.pkg)
            if not include_tests and (rel == 'test' or rel.startswith('test' + os.sep)
                                      or rel == 'tests' or rel.startswith('tests' + os.sep)):
                continue
            if rel.startswith('map'):
                continue
            for f in sorted(files):
                if f.endswith('.py'):
                    m = f[:-3] if rel == '.' else rel.replace(os.sep, '.') + '.' + f[:-3]
                    out.append(m)
        return out

    def mod(self, name):
        if name in self._mods:
            return self._mods[name]
        rel = os.path.join('pyx12', *name.split('.')) + '.py'
        path = os.path.join(self.repo, rel)
        if not os.path.isfile(path):
            raise AnalysisError('module %s vanished (%s)' % (name, rel))
        with open(path, encoding='utf-8', errors='replace') as fd:
            src = fd.read()
        try:
            with warnings.catch_warnings():
                warnings.simplefilter('ignore')
                tree = ast.parse(src, filename=path)
        except SyntaxError as e:
            raise AnalysisError('cannot parse %s: %s' % (rel, e))
        if self.normalise:
            from . import normalize
            try:
                normalize.normalize_module(name, tree, self.norm_stats, self.pkg)
            except AnalysisError:
                raise
            except Exception as e:
                raise AnalysisError('normalisation of %s failed: %s: %s' % (rel, type(e).__name__, e))
        if self.normalise:
            # helpers a refactoring added that the normal form could not expand at their call sites: a closed evaluation that
            # meets a call of one of them (and has no oracle for it) does not know its effect and must not guess
            from . import absint
            base = normalize.baseline_funcs().get(name)
            if base is not None:
                for q, f, _ism in normalize.module_functions(tree):
                    if q not in base and not (f.name.startswith('__') and f.name.endswith('__')):
                        absint.OPAQUE_NAMES.add(f.name)
        m = Module(name, path, rel, src, tree)
        self._mods[name] = m
        self.consulted.add(rel)
        self.stats['files_parsed'] += 1
        return m

    def all_mods(self):
        return [self.mod(n) for n in self.module_names()]

    # -- lookups; a missing anchor is an AnalysisError
    def cls(self, modname, clsname):
        m = self.mod(modname)
        for n in m.tree.body:
            if isinstance(n, ast.ClassDef) and n.name == clsname:
                return n
        raise AnalysisError('class %s.%s vanished' % (modname, clsname))

    def func(self, modname, qual, required=True):
        """qual = 'Class.method' or 'function'."""
        m = self.mod(modname)
        parts = qual.split('.')
        body = m.tree.body
        node = None
        for i, p in enumerate(parts):
            node = None
            for n in body:
                if isinstance(n, (ast.ClassDef, ast.FunctionDef)) and n.name == p:
                    node = n
            if node is None:
                if required:
                    raise AnalysisError('anchor %s:%s vanished' % (modname, qual))
                return None
            body = node.body
        if not isinstance(node, ast.FunctionDef):
            if required:
                raise AnalysisError('anchor %s:%s is not a function' % (modname, qual))
            return None
        node._qual = qual
        node._mod = m
        self.stats['functions_seen'] += 1
        return node

    def region(self, modname, qual):
        """the function together with the helpers a refactoring split off from it: functions of the same module that are
        not in the reference list (sa/baseline_funcs.json) and are reachable from `qual` through self./Class./plain calls
        (the normal form inlines what it can; what it cannot inline - a helper that returns from inside a loop, a
        generator - is still part of the code the rule speaks about).  Returns [FunctionDef, ...], `qual` first."""
        from . import normalize as NZ
        fn = self.func(modname, qual)
        base = NZ.baseline_funcs().get(modname) or set()
        m = self.mod(modname)
        cands = {}
        for q, f, _ism in NZ.module_functions(m.tree):
            if q not in base:
                cands[q.split('.')[-1]] = (q, f)
        out = [fn]
        seen = {id(fn)}
        todo = [fn]
        while todo:
            cur = todo.pop()
            for c in ast.walk(cur):
                if isinstance(c, ast.Call):
                    nm = c.func.attr if isinstance(c.func, ast.Attribute) else (c.func.id if isinstance(c.func, ast.Name) else None)
                    if nm in cands and id(cands[nm][1]) not in seen:
                        q, f = cands[nm]
                        f._qual = q
                        f._mod = m
                        seen.add(id(f))
                        out.append(f)
                        todo.append(f)
        return out

    def functions(self, modname):
        """yield (qualname, FunctionDef) for every function/method of a module (one nesting level of classes)."""
        m = self.mod(modname)
        for n in m.tree.body:
            if isinstance(n, ast.FunctionDef):
                n._qual = n.name
                n._mod = m
                yield n.name, n
            elif isinstance(n, ast.ClassDef):
                for c in n.body:
                    if isinstance(c, ast.FunctionDef):
                        c._qual = n.name + '.' + c.name
                        c._mod = m
                        yield c._qual, c

    def flatten(self, modname, qual, callees):
        """a copy of `qual` in which the calls of the named methods / functions of the same module (`callees`, qualified
        names; methods of base classes included) are expanded in place, repeatedly - the interprocedural view a rule
        needs when the callee's effect on the object's fields matters (an oracle only returns a value).  The original
        trees are untouched; the copy keeps the source positions of the expanded statements."""
        import copy
        from . import normalize as NZ
        key = (modname, qual, tuple(callees))
        if key in self._flat:
            return self._flat[key]
        fn = copy.deepcopy(self.func(modname, qual))
        new = []
        for q in callees:
            f = self.func(modname, q, required=False)
            if f is None:
                continue
            new.append((q, copy.deepcopy(f), '.' in q and not any(isinstance(d, ast.Name) and d.id == 'staticmethod' for d in f.decorator_list)))
        stats = {}
        inl = NZ.Inliner(self.mod(modname).tree, new, stats)
        inl.run(fn)
        NZ._Canon(stats).visit(fn)
        NZ.forward_temps(fn, stats)
        ast.fix_missing_locations(fn)
        self._flat[key] = (fn, stats, sorted(inl.expanded))
        return self._flat[key]

    def cfg(self, fn):
        from . import cfg as cfgmod
        k = id(fn)
        if k not in self._cfgs:
            g = cfgmod.CFG(fn)
            self._cfgs[k] = g
            self.stats['cfg_built'] += 1
            self.stats['cfg_nodes'] += len(g.nodes)
        return self._cfgs[k]

    def loc(self, mod, node):
        if isinstance(mod, str):
            mod = self.mod(mod)
        return '%s:%s' % (mod.relpath, getattr(node, 'lineno', '?'))

    def floc(self, fn, node=None):
        return '%s:%s' % (fn._mod.relpath, getattr(node if node is not None else fn, 'lineno', '?'))

    # -- xml model
    @property
    def maps(self):
        if 'maps' not in self._cache:
            from . import xmlmodel
            self._cache['maps'] = xmlmodel.MapSet(self)
        return self._cache['maps']

    def cached(self, key, fn):
        if key not in self._cache:
            self._cache[key] = fn()
        return self._cache[key]

    def digest(self):
        h = hashlib.sha256()
        for rel in sorted(self.consulted):
            p = os.path.join(self.repo, rel)
            h.update(rel.encode())
            try:
                with open(p, 'rb') as fd:
                    h.update(fd.read())
            except OSError:
                pass
        return h.hexdigest()[:16]


# ---------------------------------------------------------------------------
# keys
# ---------------------------------------------------------------------------

def norm(node, limit=90):
    """normalised statement/expression text used in keys (never line numbers)."""
    if isinstance(node, str):
        s = node
    else:
        try:
            s = ast.unparse(node)
        except Exception:
            s = ast.dump(node)
    s = ' '.join(s.split())
    if len(s) > limit:
        s = s[:limit - 12] + '..' + hashlib.sha1(s.encode()).hexdigest()[:8]
    return s


class KeyMaker(object):
    """builds unique keys 'qual: text' with '#n' suffixes for repeated text."""

    def __init__(self):
        self.seen = {}

    def __call__(self, *parts):
        base = ' '.join(str(p) for p in parts)
        n = self.seen.get(base, 0) + 1
        self.seen[base] = n
        return base if n == 1 else '%s #%d' % (base, n)


# ---------------------------------------------------------------------------
# known findings
# ---------------------------------------------------------------------------

def load_known():
    p = os.path.join(VERIF, 'known_findings.json')
    if not os.path.isfile(p):
        return []
    with open(p) as fd:
        return json.load(fd).get('findings', [])


# ---------------------------------------------------------------------------
# running a property
# ---------------------------------------------------------------------------

def _undecidable_here(ctx, o):
    """name of an unexpanded helper called in the function where the failed obligation `o` is located, or None"""
    from . import absint
    if not absint.OPAQUE_NAMES:
        return None
    m = re.match(r'^pyx12/(.+)\.py:(\d+)$', str(o.where))
    if not m:
        return None
    modname, line = m.group(1).replace('/', '.'), int(m.group(2))
    try:
        tree = ctx.mod(modname).tree
    except AnalysisError:
        return None
    best = None
    for f in ast.walk(tree):
        if isinstance(f, ast.FunctionDef) and f.lineno <= line <= (getattr(f, 'end_lineno', None) or f.lineno):
            if best is None or f.lineno >= best.lineno:
                best = f
    if best is None:
        return None
    for c in ast.walk(best):
        if isinstance(c, ast.Call):
            nm = c.func.attr if isinstance(c.func, ast.Attribute) else (c.func.id if isinstance(c.func, ast.Name) else None)
            if nm in absint.OPAQUE_NAMES:
                return nm
    return None


def run_property(pid, rules, meta, ctx, only=None, out=sys.stdout, seed=0, write_evidence=True,
                 evidence_dir=None, extra=None, dump_fails=False):
    """Run all rules of property `pid`.  Returns exit code 0/1/2."""
    t0 = time.time()
    known = [k for k in load_known() if k.get('property') == pid]
    known_keys = {(k['rule'], k['key']): k for k in known if str(k.get('status', '')).startswith('known')}
    all_obs = []
    per_rule = []
    errors = []
    for r in rules:
        if r.tier == 'thorough' and ctx.tier != 'thorough':
            continue
        obs = []
        errored = False
        try:
            for o in r.func(ctx):
                obs.append(o)
        except AnalysisError as e:
            errors.append('%s: %s' % (r.id, e))
            errored = True
        except Exception as e:  # noqa  -- a crash of the analyser is an analysis error, not a verdict
            import traceback
            tb = traceback.format_exc().strip().splitlines()
            errors.append('%s: analyser crashed: %s: %s | %s' % (r.id, type(e).__name__, e, ' / '.join(tb[-4:])))
            errored = True
        # obligations decided before the rule had to stop still count (a failed one is still a violation)
        seen_keys = {}
        for o in obs:
            o.rule = r.id
            n = seen_keys.get(o.key, 0) + 1
            seen_keys[o.key] = n
            if n > 1:
                o.key = '%s #%d' % (o.key, n)
        if only is not None:
            obs = [o for o in obs if o.key == only or ('%s %s' % (r.id, o.key)) == only]
        elif len(obs) < r.floor and not errored:
            errors.append('%s: matched %d instances, floor is %d (anchor moved or rule no longer matches the code)'
                          % (r.id, len(obs), r.floor))
        per_rule.append({'rule': r.id, 'text': r.text, 'instances': len(obs),
                         'failed': sum(1 for o in obs if not o.ok), 'floor': r.floor})
        all_obs.extend(obs)

    for e in errors:
        out.write('ANALYSIS-ERROR property=%s %s\n' % (pid, e))

    fails = [o for o in all_obs if not o.ok]
    viols = []
    knowns = []
    for o in fails:
        if (o.rule, o.key) in known_keys:
            knowns.append(o)
        else:
            viols.append(o)
    # a failed obligation located in a function that hands part of its work to a helper the normal form could not expand in
    # place (a class with state, a nested function, a generator ...) was judged on half of the code: undecided, not violated
    if viols and not os.environ.get('SA_NO_DEMOTE'):
        kept = []
        for o in viols:
            hid = _undecidable_here(ctx, o)
            if hid:
                errors.append('%s: [%s] cannot be judged at %s: part of the work is done in %s(), which could not be expanded in place' % (o.rule, o.key, o.where, hid))
                out.write('ANALYSIS-ERROR property=%s %s\n' % (pid, errors[-1]))
            else:
                kept.append(o)
        viols = kept
    if dump_fails:
        for o in fails:
            out.write('FAIL ' + json.dumps({'property': pid, 'rule': o.rule, 'key': o.key, 'what': o.msg, 'status': 'known'}) + '\n')
    for o in knowns:
        out.write('KNOWN-FINDING: property=%s %s %s -- %s\n' % (pid, o.rule, o.key, known_keys[(o.rule, o.key)].get('what', o.msg)))

    ev_dir = evidence_dir or os.path.join(VERIF, 'evidence')
    os.makedirs(ev_dir, exist_ok=True)
    vdir = os.path.join(ev_dir, '%s.violations' % pid)
    if os.path.isdir(vdir):
        for f in os.listdir(vdir):
            try:
                os.unlink(os.path.join(vdir, f))
            except OSError:
                pass
    for i, o in enumerate(viols):
        os.makedirs(vdir, exist_ok=True)
        rp = os.path.join(vdir, '%d.json' % i)
        with open(rp, 'w') as fd:
            json.dump({'property': pid, 'rule': o.rule, 'key': o.key, 'where': o.where, 'msg': o.msg,
                       'detail': o.detail, 'repo': ctx.repo,
                       'recheck': 'python3 sa/check.py %s --only %s' % (pid, json.dumps('%s %s' % (o.rule, o.key)))},
                      fd, indent=1, default=str)
        out.write('VIOLATION property=%s replay=%s\n' % (pid, rp))
        out.write('  %s  %s  [%s]  %s\n' % (o.where, o.rule, o.key, o.msg))

    wall = time.time() - t0
    if errors:
        # an analysis error never passes; violations found by the other rules are still reported (exit 1 wins)
        out.write('%s %s: analysis incomplete (%d rule(s) could not run), %d violation(s) from the others\n' % (pid, ctx.tier, len(errors), len(viols)))
        out.flush()
        return 1 if viols else 2
    if write_evidence and only is None:
        distinct = len({(o.rule, o.key) for o in all_obs if o.nontrivial})
        # samples: a few per rule, failures first
        samples = []
        for pr in per_rule:
            ro = [o for o in all_obs if o.rule == pr['rule']]
            ro.sort(key=lambda o: o.ok)
            for o in ro[:3]:
                samples.append(o.as_dict())
        ev = {
            'property_id': pid,
            'tier': ctx.tier,
            'seed': int(seed),
            'level': 'other',
            'coverage': {
                'explanation': meta['explanation'],
                'not_decided': meta.get('not_decided', ''),
                'obligations': len(all_obs),
                'discharged': len(all_obs) - len(fails),
                'known_findings_reported': len(knowns),
                'evaluations': len(all_obs),
                'distinct_nontrivial': distinct,
                'rule': 'one evaluation = one rule instance (a construct of /repo matched by a rule template); '
                        'distinct = distinct (rule, construct key); non-trivial = backed by a real construct of the '
                        'analysed tree (positive-control fixtures are not counted)',
                'rules': per_rule,
                'samples': samples,
                'units': dict(ctx.stats, consulted=sorted(ctx.consulted), digest=ctx.digest()),
                'trusted_base': meta.get('trusted_base', []),
                'checker_cmd': 'python3 sa/check.py %s --tier %s' % (pid, ctx.tier),
                'exhaustive': True,
            },
            'assumptions': meta.get('assumptions', []),
            'wall_s': round(wall, 3),
            'violations': len(viols),
        }
        if extra:
            ev['coverage'].update(extra)
        with open(os.path.join(ev_dir, '%s.json' % pid), 'w') as fd:
            json.dump(ev, fd, indent=1, default=str)

    out.write('%s %s: %d rule(s), %d obligation(s), %d failed (%d known, %d violation(s)) in %.2fs\n'
              % (pid, ctx.tier, len(per_rule), len(all_obs), len(fails), len(knowns), len(viols), wall))
    for pr in per_rule:
        out.write('  %-8s %4d instances %3d failed  (floor %d)  %s\n'
                  % (pr['rule'], pr['instances'], pr['failed'], pr['floor'], pr['text'][:90]))
    out.flush()
    return 1 if viols else 0
