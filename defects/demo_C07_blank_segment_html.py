"""demo: a segment of blanks only, validated with the HTML sink, must yield a verdict (C07), not a TypeError"""
import io, sys, logging
logging.disable(logging.CRITICAL)
import pyx12.x12n_document, pyx12.params
from pyx12.test.x12testdata import datafiles
src = datafiles['simple_837p']['source']
segs = [s.strip() for s in src.split('~') if s.strip()]
k = [i for i, s in enumerate(segs) if s.startswith('NM1*')][0]
doc = '~\n'.join(segs[:k] + ['  '] + segs[k:]) + '~\n'
bad = []
for html in (False, True):
    try:
        ok = pyx12.x12n_document.x12n_document(pyx12.params.params(), io.StringIO(doc), io.StringIO(), io.StringIO() if html else None, None, None)
        print('html' if html else 'no html', 'verdict', ok)
    except Exception as e:
        print('html' if html else 'no html', 'RAISED', type(e).__name__, e)
        bad.append(html)
sys.exit(1 if bad else 0)
