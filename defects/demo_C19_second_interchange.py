import io, sys, re
import logging; logging.disable(logging.CRITICAL)
import pyx12.x12n_document, pyx12.params
from pyx12.test.x12testdata import datafiles
src = datafiles['simple_837p']['source']
segs = [s.strip() for s in src.split('~') if s.strip()]
def html_of(seglist):
    fd_html = io.StringIO()
    ok = pyx12.x12n_document.x12n_document(pyx12.params.params(), io.StringIO('~\n'.join(seglist) + '~\n'), io.StringIO(), fd_html, None, None)
    return ok, fd_html.getvalue().replace('&nbsp;', ' ')
second = [s.replace('000001168' if False else s, s) for s in segs]
# give the second interchange its own control number and break an element in it (NM1 entity code)
isa13 = segs[0].split('*')[13]
second = [s.replace(isa13, '%09d' % (int(isa13) + 1)) if s.startswith(('ISA*', 'IEA*')) else s for s in segs]
k = [i for i, s in enumerate(second) if s.startswith('NM1*')][0]
second[k] = second[k].replace('NM1*41', 'NM1*ZZZ', 1) if 'NM1*41' in second[k] else second[k] + '*TOOMANY*X*Y*Z*W*Q'
ok1, h1 = html_of(second)
ok2, h2 = html_of(segs + second)
print('alone: verdict', ok1, 'error lines', len([l for l in h1.split('\n') if 'class="error"' in l]))
print('as 2nd interchange: verdict', ok2, 'error lines', len([l for l in h2.split('\n') if 'class="error"' in l]))
n1 = len([l for l in h1.split('\n') if 'class="error"' in l])
n2 = len([l for l in h2.split('\n') if 'class="error"' in l])
sys.exit(0 if n1 == n2 and n1 > 0 else 1)
