"""demo: errors of SE / IEA (and a reused ISA control number) must appear in the HTML report next to that segment"""
import io, sys, re
import logging; logging.disable(logging.CRITICAL)
import pyx12.x12n_document, pyx12.params
from pyx12.test.x12testdata import datafiles
src = datafiles['simple_837p']['source']
segs = [s.strip() for s in src.split('~') if s.strip()]

def html_of(seglist):
    fd_html = io.StringIO()
    pyx12.x12n_document.x12n_document(pyx12.params.params(), io.StringIO('~\n'.join(seglist) + '~\n'), io.StringIO(), fd_html, None, None)
    return fd_html.getvalue().replace('&nbsp;', ' ')

def after(html, seg_id):
    lines = html.split('\n')
    k = [i for i, l in enumerate(lines) if 'class="seg"' in l and re.search(r'\d+: %s\*' % seg_id, l)][-1]
    out = []
    for l in lines[k + 1:]:
        if 'class="seg"' in l:
            break
        if 'class="error"' in l:
            out.append(l)
    return out

fail = []
i = [k for k, s in enumerate(segs) if s.startswith('SE*')][0]
bad = list(segs); p = segs[i].split('*'); bad[i] = 'SE*%d*%s' % (int(p[1]) + 1, p[2])
if not any('SE count' in l for l in after(html_of(bad), 'SE')):
    fail.append('wrong SE01: the count error is not shown at the SE line')
j = [k for k, s in enumerate(segs) if s.startswith('IEA*')][0]
bad = list(segs); p = segs[j].split('*'); bad[j] = 'IEA*5*' + p[2]
if not any('IEA count' in l for l in after(html_of(bad), 'IEA')):
    fail.append('wrong IEA01: the count error is not shown at the IEA line')
bad = segs + segs   # second interchange reuses the control number
h = html_of(bad)
if 'not unique within file' not in h:
    fail.append('reused ISA13: the error is not shown anywhere in the report')
print('\n'.join(fail) or 'OK')
sys.exit(1 if fail else 0)
