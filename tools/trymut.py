#!/usr/bin/env python3
"""developer aid: apply one textual edit to a scratch copy of /repo/pyx12 (+setup.py) and run a check on it.
usage: trymut.py Cxx relpath OLD NEW [count]"""
import sys, os, shutil, subprocess, tempfile
pid, rel, old, new = sys.argv[1:5]
d = tempfile.mkdtemp(prefix='vmut_', dir='/tmp')
try:
    shutil.copytree('/repo/pyx12', d + '/pyx12', ignore=shutil.ignore_patterns('__pycache__', 'test', 'tests'))
    shutil.copy('/repo/setup.py', d + '/setup.py')
    p = os.path.join(d, rel); s = open(p).read()
    if old not in s: sys.exit('OLD text not found')
    s = s.replace(old, new, int(sys.argv[5]) if len(sys.argv) > 5 else 1); open(p, 'w').write(s)
    r = subprocess.run([sys.executable, '-m', 'py_compile', p]); 
    if r.returncode: sys.exit('variant does not compile')
    r = subprocess.run([sys.executable, '/verif/sa/check.py', pid, '--repo', d, '--no-evidence', '--evidence-dir', d + '/ev'], capture_output=True, text=True)
    print(r.stdout[-3000:], r.stderr[-2000:]); print('rc', r.returncode)
finally:
    shutil.rmtree(d, ignore_errors=True)
