#!/bin/sh
# developer aid: scratch copy of /repo with a patch applied   usage: mkvariant.sh <patch.diff> <dir>
set -e
rm -rf "$2"; mkdir -p "$2"
rsync -a --exclude .git --exclude '*.pyc' --exclude __pycache__ /repo/ "$2"/
( cd "$2" && patch -p1 -s < "$1" )
