#!/usr/bin/env python3
"""record a repaired defect: kf_fixed.py Cxx RULE KEY COMMIT WHAT  (developer aid; never run by a check)"""
import json, sys, os
p = os.path.join(os.path.dirname(os.path.dirname(os.path.abspath(__file__))), 'known_findings.json')
doc = json.load(open(p))
pid, rule, key, commit, what = sys.argv[1:6]
doc['findings'] = [f for f in doc['findings'] if not (f['rule'] == rule and f['key'] == key)]
doc['findings'].append({'property': pid, 'rule': rule, 'key': key, 'what': what, 'status': 'fixed: %s' % commit,
                        'line': 'fixed: property=%s %s %s' % (pid, commit, what)})
json.dump(doc, open(p, 'w'), indent=1); print('ok')
