#!/usr/bin/env python3
"""developer aid: every stored seeded change must be reported (exit 1) by the check of the property it breaks, every
stored behaviour-preserving refactoring must leave every check silent (exit 0).  Works on scratch copies under /dev/shm
(removed afterwards); /repo itself is not touched.   usage: matrix.py [seeds|benign|all] [name-filter]"""
import concurrent.futures as cf
import glob
import json
import os
import shutil
import subprocess
import sys

V = '/verif'
PIDS = ['C%02d' % i for i in range(1, 21)]


def sh(cmd, cwd=None):
    r = subprocess.run(cmd, shell=True, cwd=cwd, capture_output=True, text=True, timeout=1800)
    return r.returncode, r.stdout + r.stderr


def run(kind, name, patch):
    d = '/dev/shm/mx_%s_%s' % (kind, name)
    rc, out = sh('%s/tools/mkvariant.sh %s %s' % (V, patch, d))
    if rc:
        return kind, name, {'ERR': (rc, [out[:200]])}
    res = {}
    try:
        for pid in PIDS:
            rc, out = sh('python3 sa/check.py %s --no-evidence --no-selftest --repo %s' % (pid, d), V)
            if rc:
                lines = [l.strip() for l in out.splitlines() if l.startswith('  pyx12') or l.startswith('ANALYSIS') or l.startswith('  setup')]
                res[pid] = (rc, lines[:3])
    finally:
        shutil.rmtree(d, ignore_errors=True)
    return kind, name, res


def main():
    what = sys.argv[1] if len(sys.argv) > 1 else 'all'
    filt = sys.argv[2] if len(sys.argv) > 2 else ''
    jobs = []
    if what in ('seeds', 'all'):
        for d in sorted(glob.glob(V + '/seeded/*/')):
            jobs.append(('seed', os.path.basename(d.rstrip('/')), d + 'patch.diff'))
    if what in ('benign', 'all'):
        for d in sorted(glob.glob(V + '/benign/*/')):
            jobs.append(('benign', os.path.basename(d.rstrip('/')), d + 'patch.diff'))
    jobs = [j for j in jobs if filt in j[1]]
    bad = 0
    table = {'seeds': {}, 'benign': {}}
    with cf.ThreadPoolExecutor(16) as ex:
        for kind, name, res in ex.map(lambda j: run(*j), jobs):
            if kind == 'seed':
                import re as _re
                table['seeds'][name] = {p: {'exit': res[p][0], 'rules': sorted(set(_re.findall(r'  (C[0-9]+\.R[0-9a-z]+)  ', ' '.join(res[p][1]))))}
                                        for p in sorted(res)}
                own = name.split('-')[0]
                rc = res.get(own, (0, []))[0]
                others = sorted(p for p in res if p != own)
                tag = 'ok  ' if rc == 1 else 'MISS'
                if rc != 1:
                    bad += 1
                print('%s seed   %-36s own=%s rc=%s  also: %s' % (tag, name, own, rc, ' '.join('%s(%d)' % (p, res[p][0]) for p in others)))
                if rc == 1:
                    print('        ', res[own][1][0][:230])
                elif rc == 2:
                    print('        ', res[own][1][:2])
            else:
                table['benign'][name] = {p: res[p][0] for p in sorted(res)}
                tag = 'ok  ' if not res else 'ALARM'
                if res:
                    bad += 1
                print('%s benign %-36s %s' % (tag, name, ' '.join('%s(%d)' % (p, res[p][0]) for p in sorted(res))))
                for p in sorted(res):
                    for l in res[p][1]:
                        print('         %s %s' % (p, l[:260]))
    print('%d job(s), %d not as required' % (len(jobs), bad))
    if what == 'all' and not filt:
        json.dump(table, open(V + '/seeded/RESULTS.json', 'w'), indent=1, sort_keys=True)
    sys.exit(1 if bad else 0)


if __name__ == '__main__':
    main()
