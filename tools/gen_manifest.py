#!/usr/bin/env python3
"""Regenerate MANIFEST.json from the rule modules that exist (developer aid, run by hand and committed)."""
import json, os, sys, importlib
V = os.path.dirname(os.path.dirname(os.path.abspath(__file__)))
sys.path.insert(0, V)
props = [json.loads(l) for l in open(os.path.join(V, 'properties.jsonl'))]
TECH = {}
checks = []; na = []
for p in props:
    pid = p['id']
    if not os.path.exists(os.path.join(V, 'sa', 'rules', pid.lower() + '.py')):
        na.append({'property_id': pid, 'reason': 'check not built yet (static rules designed in DESIGN.md §4; see build order §9)'})
        continue
    mod = importlib.import_module('sa.rules.' + pid.lower())
    meta = mod.META
    checks.append({
        'property_id': pid,
        'quick_cmd': 'python3 sa/check.py %s --tier quick' % pid,
        'thorough_cmd': 'python3 sa/check.py %s --tier thorough' % pid,
        'evidence_file': '/verif/evidence/%s.json' % pid,
        'replay_cmd_template': 'python3 sa/check.py %s --replay {path}' % pid,
        'engine': 'sa',
        'level_claimed': {
            'category': 'other',
            'text': 'Static analysis of /repo\'s current source and shipped map data, no execution of pyx12. Decides only the '
                    'structural necessary conditions listed in DESIGN.md §4 (%s); it does not decide the behavioural property as a whole. '
                    'Clauses not decided: %s' % (', '.join(r.id for r in mod.RULES), meta.get('not_decided', '')),
            'design_ref': 'DESIGN.md §4 ' + pid,
        },
        'level_note': 'Trusted: ' + '; '.join(meta.get('trusted_base', []) + meta.get('assumptions', [])) ,
        'technique': meta.get('technique', 'static analysis: AST/CFG rules over /repo source + shipped XML data'),
    })
man = {
    'version': 1,
    'setup_cmd': 'mkdir -p /verif/evidence && python3 -c "import ast, re._parser, xml.etree.ElementTree"',
    'hooks': {'guard': 'AZONER_PYX12_VERIF', 'enable': 'none needed: the analyser reads source only, nothing is instrumented',
              'baseline_off_cmd': 'cd /repo && /venv/bin/python -m pytest -q -p no:cacheprovider --timeout=900 pyx12/test', 'source_commits': [], 'add_only': True},
    'engines': [{'name': 'sa', 'path': '/verif/sa', 'serves_properties': [c['property_id'] for c in checks],
                 'kind_free_text': 'repository-specific static analyser (python ast, hand-built CFG + dominators + must-facts, regex DFA, XML map model); pure stdlib'}],
    'checks': checks,
    'notes': 'exit 0 = all structural obligations hold (KNOWN-FINDING lines for recorded defects); exit 1 = VIOLATION; exit 2 = ANALYSIS-ERROR (anchor vanished / floor not met). Known findings: /verif/known_findings.json.',
    'not_applicable': na,
}
json.dump(man, open(os.path.join(V, 'MANIFEST.json'), 'w'), indent=1)
print('checks', len(checks), 'n/a', len(na))
