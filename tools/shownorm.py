#!/usr/bin/env python3
"""developer aid: print the normal form of one module (optionally one function) of a tree.  usage: shownorm.py <repo> <module> [qualname]"""
import ast, sys
sys.path.insert(0, '/verif')
from sa.core import Ctx
ctx = Ctx(sys.argv[1])
m = ctx.mod(sys.argv[2])
if len(sys.argv) > 3:
    mod, q = sys.argv[2], sys.argv[3]
    print(ast.unparse(ctx.func(mod, q)))
else:
    print(ast.unparse(m.tree))
print(ctx.norm_stats, file=sys.stderr)
