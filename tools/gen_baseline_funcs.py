#!/usr/bin/env python3
"""developer aid: freeze the list of functions the rules were confirmed against (sa/baseline_funcs.json).
A function that is not in this list is treated as a newly extracted helper and expanded at its call sites
before the rules run (sa/normalize.py N2).  Re-run only after re-confirming the rules on a new reference tree."""
import json
import os
import sys
sys.path.insert(0, '/verif')
from sa.core import Ctx
from sa import normalize

ctx = Ctx('/repo')
out = {}
for name in ctx.module_names():
    import ast
    with open(os.path.join('/repo/pyx12', *name.split('.')) + '.py', encoding='utf-8', errors='replace') as fd:
        tree = ast.parse(fd.read())
    out[name] = sorted(q for q, _f, _m in normalize.module_functions(tree))
json.dump(out, open('/verif/sa/baseline_funcs.json', 'w'), indent=0, sort_keys=True)
print(sum(len(v) for v in out.values()), 'functions in', len(out), 'modules')
