#!/usr/bin/env python3-vt
"""validate MANIFEST.json and every evidence file against the schemas (developer aid)."""
import json, sys, glob, jsonschema
ms = json.load(open('/root/.vp/MANIFEST.schema.json')); es = json.load(open('/root/.vp/EVIDENCE.schema.json'))
m = json.load(open('/verif/MANIFEST.json')); jsonschema.validate(m, ms); print('MANIFEST ok', len(m['checks']), 'checks')
for c in m['checks']:
    p = c['evidence_file']
    try:
        e = json.load(open(p)); jsonschema.validate(e, es); print(' ok', p, e['tier'], e['coverage'].get('obligations'), e['violations'])
    except Exception as ex:
        print(' BAD', p, str(ex)[:200])
