#!/bin/sh
# developer aid: tryseed.sh <seeded-or-benign dir name> <Cxx> [extra check args]  - run one check on a scratch copy with the stored patch
d=/dev/shm/try_$$
p=/verif/seeded/$1/patch.diff
[ -f "$p" ] || p=/verif/benign/$1/patch.diff
/verif/tools/mkvariant.sh $p $d >/dev/null || exit 3
shift
pid=$1; shift
cd /verif && python3 sa/check.py $pid --no-evidence --no-selftest --repo $d "$@"
rc=$?
rm -rf $d
exit $rc
