#!/usr/bin/env python3
"""developer aid: rewrite the generated tables of DESIGN.md (between the GENERATED markers) from seeded/*/meta.json,
seeded/RESULTS.json (written by tools/matrix.py all) and the rule lists of sa/rules."""
import glob
import importlib
import json
import os
import sys
sys.path.insert(0, '/verif')

res = json.load(open('/verif/seeded/RESULTS.json'))
lines = ['| seeded change (round) | what it does | needs | reported by (own property first) |', '|---|---|---|---|']
for d in sorted(glob.glob('/verif/seeded/*/')):
    name = os.path.basename(d.rstrip('/'))
    meta = json.load(open(d + 'meta.json'))
    own = name.split('-')[0]
    r = res['seeds'].get(name, {})
    rep = []
    for p in [own] + sorted(k for k in r if k != own):
        if p in r:
            rep.append('%s: %s' % (p, ', '.join(x for x in r[p]['rules']) or 'exit %d' % r[p]['exit']))
    lines.append('| `%s` (%s) | %s | %s | %s |' % (name, meta.get('round', 1), meta.get('summary', '').replace('|', '/'),
                                                  meta.get('needs_to_manifest', '').replace('|', '/'), '; '.join(rep)))
seed_tab = '\n'.join(lines)
ben = ['| refactoring | files | result |', '|---|---|---|']
import re
for d in sorted(glob.glob('/verif/benign/*/'), key=lambda x: int(re.sub(r'\D', '', os.path.basename(x.rstrip('/'))))):
    name = os.path.basename(d.rstrip('/'))
    diff = open(d + 'patch.diff').read()
    files = sorted(set(re.findall(r'^\+\+\+ b/(\S+)', diff, re.M)))
    r = res['benign'].get(name, {})
    ben.append('| `%s` | %s | %s |' % (name, ', '.join(files), 'all 20 checks exit 0' if not r else 'ALARM %s' % r))
ben_tab = '\n'.join(ben)
rules = ['| property | rules (id: text; floor) |', '|---|---|']
for i in range(1, 21):
    m = importlib.import_module('sa.rules.c%02d' % i)
    rules.append('| C%02d | %s |' % (i, '<br>'.join('%s: %s (%d)' % (r.id, r.text.replace('|', '/'), r.floor) for r in m.RULES)))
rule_tab = '\n'.join(rules)
p = '/verif/DESIGN.md'
s = open(p).read()
for tag, tab in (('SEEDS', seed_tab), ('BENIGN', ben_tab), ('RULES', rule_tab)):
    a = '<!-- GENERATED:%s -->' % tag
    b = '<!-- /GENERATED:%s -->' % tag
    if a in s and b in s:
        s = s[:s.index(a) + len(a)] + '\n' + tab + '\n' + s[s.index(b):]
    else:
        print('marker', tag, 'missing')
open(p, 'w').write(s)
print('tables written')
