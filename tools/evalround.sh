#!/bin/sh
# developer aid: evalround.sh "Cxx id" ...   - evaluate seed worktrees /tmp/seed/Cxx and keep them under seeded/<id>
cd /verif
for x in "$@"; do set -- $x; python3 tools/seed_eval.py /tmp/seed/$1 --keep $2 2>&1 | python3 -c "
import sys,json
d=json.load(sys.stdin)
print('$2', d['confirmed'], d['suite_with_change'][:10], d['demo_with_change_rc'], d['demo_without_change_rc'], {k:v['rc'] for k,v in d['caught_by'].items()})
for k,v in d['caught_by'].items(): print('    ',k, [r[:200] for r in v['reports'][:1]])
"; done
