#!/usr/bin/env python3
"""developer aid: prepare scratch worktrees + TASK.txt for a round of sub-agent seeds / benign refactorings.
usage: mk_round.py seeds|benign   (worktrees under /tmp/seed; nothing from /verif is copied except the property text)"""
import glob
import json
import os
import re
import subprocess
import sys

ROOT = '/tmp/seed'


def sh(c):
    return subprocess.run(c, shell=True, capture_output=True, text=True)


def touched(pid):
    out = []
    for d in sorted(glob.glob('/verif/seeded/%s-*/' % pid)):
        try:
            diff = open(d + 'patch.diff').read()
        except OSError:
            continue
        files = re.findall(r'^\+\+\+ b/(\S+)', diff, re.M)
        funcs = re.findall(r'^@@.*@@\s*(?:def|class)\s+(\w+)', diff, re.M)
        meta = json.load(open(d + 'meta.json'))
        out.append('%s (%s): %s' % (', '.join(files), ', '.join(sorted(set(funcs))) or 'see summary', meta.get('summary', '')[:220]))
    return out


SEED = '''You are taking part in an evaluation of verification tooling for the Python package in this directory
(pyx12, an X12 EDI validator).  This directory ({wt}) is your own scratch git worktree; work ONLY inside it.
Do not read, list or touch /verif or /repo.

PROPERTY {pid} - {title}

{statement}

Scope (quantifier): {quantifier}

YOUR TASK
Make ONE small, realistic change to the package source (under pyx12/, not the tests) of the kind a developer could
make by mistake (a refactoring slip, an over-eager optimisation, a wrong variable, an off-by-one, two sites that each
look fine and disagree) such that
  1. the package still imports and the full existing test suite still passes:
       cd {wt} && /venv/bin/python -m pytest -q -p no:cacheprovider pyx12/test      (expect "454 passed")
  2. the property above is BROKEN, but only for something specific: a particular schedule of calls, a rarely used
     parameter or input shape, a second document in the same process, a particular position in the file ... -
     ordinary use and the existing tests do not show it;
  3. you can demonstrate it: write {wt}/demo_{pid}.py, a stand-alone script (run with /venv/bin/python from {wt}) that
     exits 0 on the UNCHANGED code and exits non-zero (assertion) WITH your change.

Earlier participants already changed the following places for this property - choose a DIFFERENT function and a
DIFFERENT mechanism:
{avoid}

When you are done
  - leave the change applied (uncommitted) in the worktree and save it:  git diff -- pyx12 > {wt}/patch.diff
  - verify the demo both ways WITHOUT git stash (the stash is shared with other worktrees):
        git diff -- pyx12 > p.diff; git apply -R p.diff; /venv/bin/python demo_{pid}.py; git apply p.diff; /venv/bin/python demo_{pid}.py
  - report: the diff, why it breaks the property, what exactly is needed for it to manifest, the commands you ran and
    their results.
If you notice that the UNCHANGED code already violates the property in some way, do not use that; mention it in your
report and pick something else.
'''

BENIGN = '''You are taking part in an evaluation of verification tooling for the Python package in this directory
(pyx12, an X12 EDI validator).  This directory ({wt}) is your own scratch git worktree; work ONLY inside it.
Do not read, list or touch /verif or /repo.

YOUR TASK: a BEHAVIOUR-PRESERVING refactoring of
    {target}
Make about ten independent, realistic refactorings of the kind a maintainer does while tidying up, for example:
extract a private helper method/function, inline a helper or a local, hoist a repeated sub-expression into a local,
rename locals, invert an if/else, turn an if/elif chain into a table lookup (or back), replace a loop by a
comprehension (or back), reorder independent statements or membership tuples, `not a == b` for `a != b`,
%-formatting to str.format / f-strings, merge duplicated blocks, early-return guards, enumerate() for index loops.
Hard constraints:
  - NO observable behaviour may change: same return values, same exceptions (type AND message), same error codes and
    messages, same counters, same order of reports, same text written to every output stream, for every input.
  - do not touch pyx12/test, do not rename public functions/methods/attributes or change signatures.
  - the full suite still passes:  cd {wt} && /venv/bin/python -m pytest -q -p no:cacheprovider pyx12/test   ("454 passed")
  - write {wt}/equiv_{bid}.py: a stand-alone script that exercises the refactored functions on many inputs (the sample
    documents in pyx12/test/x12testdata.py plus malformed variants; direct calls with edge-case arguments) and prints a
    digest of everything observable; run it on the original and on the refactored code and confirm the digests are
    IDENTICAL.  Do NOT use git stash (shared between worktrees); use
        git diff -- pyx12 > p.diff; git apply -R p.diff; <run>; git apply p.diff; <run>
When you are done leave the refactoring applied (uncommitted), save it with  git diff -- pyx12 > {wt}/patch.diff  and
report the list of refactorings, the suite result and both digests.
'''

TARGETS = {
    'B51': 'pyx12/error_handler.py: class err_iter (__next__, first, next), the navigation methods of err_node and its subclasses (get_first_child, get_next_sibling, get_parent, is_closed, _get_last_child), get_error_list of err_node/err_isa/err_gs/err_st, err_seg and err_ele.  Structural refactorings: early returns, extracted private helpers, loops to comprehensions/any/next, membership tests for or-chains, renamed locals',
    'B52': 'pyx12/x12file.py: class X12Writer (Write, Close, _close_loop, _popToLoop, _close_iea, _close_ge, _close_se, _write_segment, _write_isa_segment, _get_trailer_segment).  Structural refactorings: while/if restructuring of _popToLoop, a dict from loop type to closing method or to (trailer id, counter attribute), early returns, locals, str.format / f-strings',
    'B53': 'pyx12/scripts/x12valid.py, pyx12/scripts/x12html.py and pyx12/scripts/x12xml.py: the main() functions.  Structural refactorings: extracted per-file function, extracted target-name helper, context managers for the files where exactly equivalent, early continue guards, argument parser set-up in a helper',
    'B54': 'pyx12/map_if.py: the lookup methods map_if.getnodebypath/getnodebypath2, loop_if.getnodebypath/getnodebypath2/childIterator/get_child_node_by_idx/get_first_node/get_first_seg, segment_if.getnodebypath2/get_child_node_by_idx/get_child_node_by_ordinal, is_match/is_match_qual.  Structural refactorings: shared iteration helper over pos_map, early returns, parsed path parts in locals, comprehension/next() for search loops',
    'B55': 'pyx12/x12n_document.py function x12n_document: a MODERATE tidy-up that keeps one main function containing the segment loop - at most four extractions of private module-level functions (e.g. the 997/999 generation, the map lookup for GS, the HTML error-node collection), early continue guards, locals for repeated calls, str.format for %-formatting, if/elif reordering where independent',
    'B56': 'pyx12/x12context.py: class X12ContextReader (__init__, iter_segments, _add_segment, _get_segment_node?, _reset_counter_to_isa_counts, _reset_counter_to_gs_counts, register_error_callback) second pass.  Structural refactorings: extract the map-selection part of iter_segments into a private method returning the new map node, early returns, locals, merged duplicated blocks',
    'B57': 'pyx12/error_html.py (second pass: header, footer, gen_seg, gen_info, loop, _seg_str, _wrap_ele_error, seg_str, escape_html_chars) and pyx12/x12xml_simple.py.  Structural refactorings: one private method that writes an error line, list + join for repeated writes where the written text is identical, early continue, comprehension/loop conversions',
    'B58': 'pyx12/segment.py third pass: Element, Composite and Segment - format, __repr__, is_empty, __len__, get_value, get, set, append, copy/__copy__, __eq__, is_seg_id_valid, values_iterator.  Structural refactorings: rstrip-style trimming ONLY where exactly equivalent, any()/all(), enumerate, early returns, shared private helpers',
    'B59': 'pyx12/map_walker.py: walk_tree._check_seg_usage, _check_loop_usage, _flush_mandatory_segs, forceWalkCounterToLoopStart, getCountState/setCountState, __init__, and pyx12/nodeCounter.py.  Structural refactorings: a shared private helper for the "exceeded max count" report, early returns, locals for repeated counter lookups, str.format, comprehension/loop conversions',
    'B60': 'pyx12/error_997.py and pyx12/error_999.py third pass: visit_root_pre, visit_gs_pre, visit_st_pre, visit_st_post, __get_isa_errors/__get_st_errors, _write.  Structural refactorings: a table of (position, source element) for the ISA/GS construction, shared base-class style helpers inside each file, loops for repeated appends, locals, early returns',
}


def main():
    what = sys.argv[1]
    os.makedirs(ROOT, exist_ok=True)
    if what == 'seeds':
        for l in open('/verif/properties.jsonl'):
            p = json.loads(l)
            pid = p['id']
            wt = '%s/%s' % (ROOT, pid)
            r = sh('git -C /repo worktree add --detach %s HEAD' % wt)
            if r.returncode:
                print(pid, r.stderr.strip()[:200])
                continue
            av = touched(pid)
            open(wt + '/TASK.txt', 'w').write(SEED.format(wt=wt, pid=pid, title=p['title'], statement=p['statement'], quantifier=p['quantifier'],
                                                           avoid='\n'.join('  - ' + a for a in av) or '  (none)'))
        print('seed worktrees ready')
    else:
        for bid, tgt in sorted(TARGETS.items()):
            wt = '%s/%s' % (ROOT, bid)
            r = sh('git -C /repo worktree add --detach %s HEAD' % wt)
            if r.returncode:
                print(bid, r.stderr.strip()[:200])
                continue
            open(wt + '/TASK.txt', 'w').write(BENIGN.format(wt=wt, bid=bid, target=tgt))
        print('benign worktrees ready')


if __name__ == '__main__':
    main()
