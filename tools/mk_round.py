#!/usr/bin/env python3
"""developer aid: prepare scratch worktrees + TASK.txt for a round of sub-agent seeds / benign refactorings.
usage: mk_round.py seeds|benign   (worktrees under /tmp/seed; nothing from /verif is copied except the property text)"""
import glob
import json
import os
import re
import subprocess
import sys

ROOT = '/tmp/seed'


def sh(c):
    return subprocess.run(c, shell=True, capture_output=True, text=True)


def touched(pid):
    out = []
    for d in sorted(glob.glob('/verif/seeded/%s-*/' % pid)):
        try:
            diff = open(d + 'patch.diff').read()
        except OSError:
            continue
        files = re.findall(r'^\+\+\+ b/(\S+)', diff, re.M)
        funcs = re.findall(r'^@@.*@@\s*(?:def|class)\s+(\w+)', diff, re.M)
        meta = json.load(open(d + 'meta.json'))
        out.append('%s (%s): %s' % (', '.join(files), ', '.join(sorted(set(funcs))) or 'see summary', meta.get('summary', '')[:220]))
    return out


SEED = '''You are taking part in an evaluation of verification tooling for the Python package in this directory
(pyx12, an X12 EDI validator).  This directory ({wt}) is your own scratch git worktree; work ONLY inside it.
Do not read, list or touch /verif or /repo.

PROPERTY {pid} - {title}

{statement}

Scope (quantifier): {quantifier}

YOUR TASK
Make ONE small, realistic change to the package source (under pyx12/, not the tests) of the kind a developer could
make by mistake (a refactoring slip, an over-eager optimisation, a wrong variable, an off-by-one, two sites that each
look fine and disagree) such that
  1. the package still imports and the full existing test suite still passes:
       cd {wt} && /venv/bin/python -m pytest -q -p no:cacheprovider pyx12/test      (expect "454 passed")
  2. the property above is BROKEN, but only for something specific: a particular schedule of calls, a rarely used
     parameter or input shape, a second document in the same process, a particular position in the file ... -
     ordinary use and the existing tests do not show it;
  3. you can demonstrate it: write {wt}/demo_{pid}.py, a stand-alone script (run with /venv/bin/python from {wt}) that
     exits 0 on the UNCHANGED code and exits non-zero (assertion) WITH your change.

Earlier participants already changed the following places for this property - choose a DIFFERENT function and a
DIFFERENT mechanism:
{avoid}

When you are done
  - leave the change applied (uncommitted) in the worktree and save it:  git diff -- pyx12 > {wt}/patch.diff
  - verify the demo both ways WITHOUT git stash (the stash is shared with other worktrees):
        git diff -- pyx12 > p.diff; git apply -R p.diff; /venv/bin/python demo_{pid}.py; git apply p.diff; /venv/bin/python demo_{pid}.py
  - report: the diff, why it breaks the property, what exactly is needed for it to manifest, the commands you ran and
    their results.
If you notice that the UNCHANGED code already violates the property in some way, do not use that; mention it in your
report and pick something else.
'''

BENIGN = '''You are taking part in an evaluation of verification tooling for the Python package in this directory
(pyx12, an X12 EDI validator).  This directory ({wt}) is your own scratch git worktree; work ONLY inside it.
Do not read, list or touch /verif or /repo.

YOUR TASK: a BEHAVIOUR-PRESERVING refactoring of
    {target}
Make about ten independent, realistic refactorings of the kind a maintainer does while tidying up, for example:
extract a private helper method/function, inline a helper or a local, hoist a repeated sub-expression into a local,
rename locals, invert an if/else, turn an if/elif chain into a table lookup (or back), replace a loop by a
comprehension (or back), reorder independent statements or membership tuples, `not a == b` for `a != b`,
%-formatting to str.format / f-strings, merge duplicated blocks, early-return guards, enumerate() for index loops.
Hard constraints:
  - NO observable behaviour may change: same return values, same exceptions (type AND message), same error codes and
    messages, same counters, same order of reports, same text written to every output stream, for every input.
  - do not touch pyx12/test, do not rename public functions/methods/attributes or change signatures.
  - the full suite still passes:  cd {wt} && /venv/bin/python -m pytest -q -p no:cacheprovider pyx12/test   ("454 passed")
  - write {wt}/equiv_{bid}.py: a stand-alone script that exercises the refactored functions on many inputs (the sample
    documents in pyx12/test/x12testdata.py plus malformed variants; direct calls with edge-case arguments) and prints a
    digest of everything observable; run it on the original and on the refactored code and confirm the digests are
    IDENTICAL.  Do NOT use git stash (shared between worktrees); use
        git diff -- pyx12 > p.diff; git apply -R p.diff; <run>; git apply p.diff; <run>
When you are done leave the refactoring applied (uncommitted), save it with  git diff -- pyx12 > {wt}/patch.diff  and
report the list of refactorings, the suite result and both digests.
'''

TARGETS = {
    'B61': 'pyx12/x12file.py: X12Reader.__iter__, X12Reader._parse_segment, X12Reader.cleanup, X12Base.pop_errors/_isa_error/_gs_error/_st_error/_seg_error, the get_* accessors (get_isa_id, get_gs_id, get_st_id, get_ls_id, get_seg_count, get_cur_line, get_term).  Light structural refactorings: early returns, next()/generator expressions for the search loops of the accessors, locals, str.format, a helper for the repeated "find last loop of a type" scan',
    'B62': 'pyx12/map_if.py: class x12_node (get_path, _get_x12_path, is_first_seg_in_loop, is_map_root, is_loop, is_segment, is_element, is_composite, __eq__/__ne__/__lt__ family, getnodebypath stubs) and element_if (__init__, _error, _valid_code, _is_valid_code, get_data_type, get_seg_count) and composite_if.__init__.  Structural refactorings: early returns, cached-path blocks restructured without changing when the cache is filled, locals, str.format, comprehension/loop conversions',
    'B63': 'pyx12/error_handler.py: err_isa/err_gs/err_st/err_seg/err_ele __init__, close(), add_error, err_count, get_error_count, child_err_count, get_cur_line, the ack_code properties; errh_null.  Structural refactorings: shared private helpers for the count sums, try/except blocks narrowed ONLY where exactly equivalent, early returns, locals, conditional expressions',
    'B64': 'pyx12/x12context.py: X12DataNode.get_value/set_value/exists/count/select/_select/_get_start_node/delete, X12SegmentDataNode (get_value, set_value, get_first_matching_segment, _select, copy) and X12LoopDataNode.get_first_matching_segment/get_value/set_value.  Structural refactorings: shared path-splitting helper, early returns, generator/comprehension conversions, locals',
    'B65': 'pyx12/codes.py (ExternalCodes.__init__, isValid, debug_print), pyx12/params.py (ParamsBase, params, _read_config_file) and pyx12/map_index.py (second pass: __init__, add_map, get_filename, get_abbr, print_all).  Structural refactorings: extracted loaders, dict.get / setdefault where exactly equivalent, early returns, comprehension/loop conversions, str.format',
    'B66': 'pyx12/xmlwriter.py (XMLWriter: push, pop, elem, empty, doctype, _escape_cont, _escape_attr, _write, __len__), pyx12/x12xml.py and pyx12/x12xml_simple.py (second pass of seg, __init__, __del__, _get_*_info).  Structural refactorings: shared attribute-rendering helper in the writer, replace-chains as loops over a table, early returns, locals',
    'B67': 'pyx12/scripts/x12norm.py, pyx12/scripts/x12info.py and pyx12/scripts/xmlx12.py: the main() functions and their helpers.  Structural refactorings: extracted per-file function, extracted "write the result to the chosen target" helper, argument parser set-up in a helper, early continue guards, with-statements only where exactly equivalent',
    'B68': 'pyx12/syntax.py (is_syntax_valid and its helpers) and pyx12/validation.py (second pass: is_valid_time, contains_control_character, not_match_re, match_re).  Structural refactorings: per-letter predicates picked from a dict, any()/all()/sum() for the presence counts, early returns, locals; regex literals stay byte-identical',
    'B69': 'pyx12/map_walker.py: walk_tree.walk (only early-return / local / rename level changes), get_pop_loops, get_push_loops, common_root_node, traverse_path, pop_to_parent_loop, is_first_seg_match2, _is_loop_match, _goto_seg_match.  Structural refactorings: zip/enumerate for the index loops of the path comparison, early returns, locals, comprehension/loop conversions',
    'B70': 'pyx12/error_997.py and pyx12/error_999.py: visit_seg, visit_ele, _write (997), __init__, visit_isa_pre/post, and pyx12/error_visitor.py.  Structural refactorings: the AK3/IK3 and AK4/IK4 construction through small private builders, code filters as comprehensions, conditional expressions, locals, early returns',
}


def main():
    what = sys.argv[1]
    os.makedirs(ROOT, exist_ok=True)
    if what == 'seeds':
        for l in open('/verif/properties.jsonl'):
            p = json.loads(l)
            pid = p['id']
            wt = '%s/%s' % (ROOT, pid)
            r = sh('git -C /repo worktree add --detach %s HEAD' % wt)
            if r.returncode:
                print(pid, r.stderr.strip()[:200])
                continue
            av = touched(pid)
            open(wt + '/TASK.txt', 'w').write(SEED.format(wt=wt, pid=pid, title=p['title'], statement=p['statement'], quantifier=p['quantifier'],
                                                           avoid='\n'.join('  - ' + a for a in av) or '  (none)'))
        print('seed worktrees ready')
    else:
        for bid, tgt in sorted(TARGETS.items()):
            wt = '%s/%s' % (ROOT, bid)
            r = sh('git -C /repo worktree add --detach %s HEAD' % wt)
            if r.returncode:
                print(bid, r.stderr.strip()[:200])
                continue
            open(wt + '/TASK.txt', 'w').write(BENIGN.format(wt=wt, bid=bid, target=tgt))
        print('benign worktrees ready')


if __name__ == '__main__':
    main()
