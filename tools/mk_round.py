#!/usr/bin/env python3
"""developer aid: prepare scratch worktrees + TASK.txt for a round of sub-agent seeds / benign refactorings.
usage: mk_round.py seeds|benign   (worktrees under /tmp/seed; nothing from /verif is copied except the property text)"""
import glob
import json
import os
import re
import subprocess
import sys

ROOT = '/tmp/seed'


def sh(c):
    return subprocess.run(c, shell=True, capture_output=True, text=True)


def touched(pid):
    out = []
    for d in sorted(glob.glob('/verif/seeded/%s-*/' % pid)):
        try:
            diff = open(d + 'patch.diff').read()
        except OSError:
            continue
        files = re.findall(r'^\+\+\+ b/(\S+)', diff, re.M)
        funcs = re.findall(r'^@@.*@@\s*(?:def|class)\s+(\w+)', diff, re.M)
        meta = json.load(open(d + 'meta.json'))
        out.append('%s (%s): %s' % (', '.join(files), ', '.join(sorted(set(funcs))) or 'see summary', meta.get('summary', '')[:220]))
    return out


SEED = '''You are taking part in an evaluation of verification tooling for the Python package in this directory
(pyx12, an X12 EDI validator).  This directory ({wt}) is your own scratch git worktree; work ONLY inside it.
Do not read, list or touch /verif or /repo.

PROPERTY {pid} - {title}

{statement}

Scope (quantifier): {quantifier}

YOUR TASK
Make ONE small, realistic change to the package source (under pyx12/, not the tests) of the kind a developer could
make by mistake (a refactoring slip, an over-eager optimisation, a wrong variable, an off-by-one, two sites that each
look fine and disagree) such that
  1. the package still imports and the full existing test suite still passes:
       cd {wt} && /venv/bin/python -m pytest -q -p no:cacheprovider pyx12/test      (expect "454 passed")
  2. the property above is BROKEN, but only for something specific: a particular schedule of calls, a rarely used
     parameter or input shape, a second document in the same process, a particular position in the file ... -
     ordinary use and the existing tests do not show it;
  3. you can demonstrate it: write {wt}/demo_{pid}.py, a stand-alone script (run with /venv/bin/python from {wt}) that
     exits 0 on the UNCHANGED code and exits non-zero (assertion) WITH your change.

Earlier participants already changed the following places for this property - choose a DIFFERENT function and a
DIFFERENT mechanism:
{avoid}

When you are done
  - leave the change applied (uncommitted) in the worktree and save it:  git diff -- pyx12 > {wt}/patch.diff
  - verify the demo both ways WITHOUT git stash (the stash is shared with other worktrees):
        git diff -- pyx12 > p.diff; git apply -R p.diff; /venv/bin/python demo_{pid}.py; git apply p.diff; /venv/bin/python demo_{pid}.py
  - report: the diff, why it breaks the property, what exactly is needed for it to manifest, the commands you ran and
    their results.
If you notice that the UNCHANGED code already violates the property in some way, do not use that; mention it in your
report and pick something else.
'''

BENIGN = '''You are taking part in an evaluation of verification tooling for the Python package in this directory
(pyx12, an X12 EDI validator).  This directory ({wt}) is your own scratch git worktree; work ONLY inside it.
Do not read, list or touch /verif or /repo.

YOUR TASK: a BEHAVIOUR-PRESERVING refactoring of
    {target}
Make about ten independent, realistic refactorings of the kind a maintainer does while tidying up, for example:
extract a private helper method/function, inline a helper or a local, hoist a repeated sub-expression into a local,
rename locals, invert an if/else, turn an if/elif chain into a table lookup (or back), replace a loop by a
comprehension (or back), reorder independent statements or membership tuples, `not a == b` for `a != b`,
%-formatting to str.format / f-strings, merge duplicated blocks, early-return guards, enumerate() for index loops.
Hard constraints:
  - NO observable behaviour may change: same return values, same exceptions (type AND message), same error codes and
    messages, same counters, same order of reports, same text written to every output stream, for every input.
  - do not touch pyx12/test, do not rename public functions/methods/attributes or change signatures.
  - the full suite still passes:  cd {wt} && /venv/bin/python -m pytest -q -p no:cacheprovider pyx12/test   ("454 passed")
  - write {wt}/equiv_{bid}.py: a stand-alone script that exercises the refactored functions on many inputs (the sample
    documents in pyx12/test/x12testdata.py plus malformed variants; direct calls with edge-case arguments) and prints a
    digest of everything observable; run it on the original and on the refactored code and confirm the digests are
    IDENTICAL.  Do NOT use git stash (shared between worktrees); use
        git diff -- pyx12 > p.diff; git apply -R p.diff; <run>; git apply p.diff; <run>
When you are done leave the refactoring applied (uncommitted), save it with  git diff -- pyx12 > {wt}/patch.diff  and
report the list of refactorings, the suite result and both digests.
'''

TARGETS = {
    'B21': 'pyx12/x12file.py (classes X12Base, X12Reader, X12Writer).  Prefer LARGE structural refactorings here: split _parse_segment into one private method per segment id, table-driven dispatch, merged duplicated blocks',
    'B22': 'pyx12/map_walker.py and pyx12/nodeCounter.py.  Prefer LARGE structural refactorings: split walk() into private helpers, early returns, merged duplicated blocks',
    'B23': 'pyx12/map_if.py: the is_valid methods of segment_if, element_if and composite_if (and _is_valid_code).  Prefer LARGE structural refactorings: one private helper per kind of check, early returns, merged duplicated blocks',
    'B24': 'pyx12/error_handler.py: class err_handler (handle_errors, add_*_loop, close_*_loop, *_error, add_seg, add_ele, _add_cur_seg ...).  Prefer structural refactorings: table-driven dispatch in handle_errors, extracted helpers, early returns',
    'B25': 'pyx12/error_999.py and pyx12/error_997.py: visit_seg, visit_ele, visit_st_pre/post, visit_gs_pre/post and the __get_*_errors helpers.  Prefer structural refactorings: shared helpers, table lookups, comprehension/loop conversions',
    'B26': 'pyx12/x12context.py: classes X12DataNode and X12LoopDataNode (the tree API: get_value, set_value, exists, count, select, first, add_*, delete_*, copy, iterate_*).  Prefer structural refactorings: shared private helpers for the path resolution, early returns',
    'B27': 'pyx12/validation.py and pyx12/syntax.py.  Prefer structural refactorings: table-driven month lengths, extracted helpers per note type / per data type, early returns',
    'B28': 'pyx12/segment.py and pyx12/path.py.  Prefer structural refactorings: extracted helpers, merged duplicated code in get/get_value/set/is_*, early returns',
    'B29': 'pyx12/rawx12file.py, pyx12/scripts/x12norm.py, pyx12/xmlx12_simple.py and pyx12/xmlwriter.py.  Prefer structural refactorings: extracted helpers, table lookups, loop restructuring',
    'B30': 'pyx12/x12n_document.py (function x12n_document).  Prefer LARGE structural refactorings: split the body of the segment loop into private module functions (one for the control segments, one per trailer, one for the HTML/XML sinks), table-driven dispatch',
}


def main():
    what = sys.argv[1]
    os.makedirs(ROOT, exist_ok=True)
    if what == 'seeds':
        for l in open('/verif/properties.jsonl'):
            p = json.loads(l)
            pid = p['id']
            wt = '%s/%s' % (ROOT, pid)
            r = sh('git -C /repo worktree add --detach %s HEAD' % wt)
            if r.returncode:
                print(pid, r.stderr.strip()[:200])
                continue
            av = touched(pid)
            open(wt + '/TASK.txt', 'w').write(SEED.format(wt=wt, pid=pid, title=p['title'], statement=p['statement'], quantifier=p['quantifier'],
                                                           avoid='\n'.join('  - ' + a for a in av) or '  (none)'))
        print('seed worktrees ready')
    else:
        for bid, tgt in sorted(TARGETS.items()):
            wt = '%s/%s' % (ROOT, bid)
            r = sh('git -C /repo worktree add --detach %s HEAD' % wt)
            if r.returncode:
                print(bid, r.stderr.strip()[:200])
                continue
            open(wt + '/TASK.txt', 'w').write(BENIGN.format(wt=wt, bid=bid, target=tgt))
        print('benign worktrees ready')


if __name__ == '__main__':
    main()
