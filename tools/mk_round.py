#!/usr/bin/env python3
"""developer aid: prepare scratch worktrees + TASK.txt for a round of sub-agent seeds / benign refactorings.
usage: mk_round.py seeds|benign   (worktrees under /tmp/seed; nothing from /verif is copied except the property text)"""
import glob
import json
import os
import re
import subprocess
import sys

ROOT = '/tmp/seed'


def sh(c):
    return subprocess.run(c, shell=True, capture_output=True, text=True)


def touched(pid):
    out = []
    for d in sorted(glob.glob('/verif/seeded/%s-*/' % pid)):
        try:
            diff = open(d + 'patch.diff').read()
        except OSError:
            continue
        files = re.findall(r'^\+\+\+ b/(\S+)', diff, re.M)
        funcs = re.findall(r'^@@.*@@\s*(?:def|class)\s+(\w+)', diff, re.M)
        meta = json.load(open(d + 'meta.json'))
        out.append('%s (%s): %s' % (', '.join(files), ', '.join(sorted(set(funcs))) or 'see summary', meta.get('summary', '')[:220]))
    return out


SEED = '''You are taking part in an evaluation of verification tooling for the Python package in this directory
(pyx12, an X12 EDI validator).  This directory ({wt}) is your own scratch git worktree; work ONLY inside it.
Do not read, list or touch /verif or /repo.

PROPERTY {pid} - {title}

{statement}

Scope (quantifier): {quantifier}

YOUR TASK
Make ONE small, realistic change to the package source (under pyx12/, not the tests) of the kind a developer could
make by mistake (a refactoring slip, an over-eager optimisation, a wrong variable, an off-by-one, two sites that each
look fine and disagree) such that
  1. the package still imports and the full existing test suite still passes:
       cd {wt} && /venv/bin/python -m pytest -q -p no:cacheprovider pyx12/test      (expect "454 passed")
  2. the property above is BROKEN, but only for something specific: a particular schedule of calls, a rarely used
     parameter or input shape, a second document in the same process, a particular position in the file ... -
     ordinary use and the existing tests do not show it;
  3. you can demonstrate it: write {wt}/demo_{pid}.py, a stand-alone script (run with /venv/bin/python from {wt}) that
     exits 0 on the UNCHANGED code and exits non-zero (assertion) WITH your change.

Earlier participants already changed the following places for this property - choose a DIFFERENT function and a
DIFFERENT mechanism:
{avoid}

When you are done
  - leave the change applied (uncommitted) in the worktree and save it:  git diff -- pyx12 > {wt}/patch.diff
  - verify the demo both ways WITHOUT git stash (the stash is shared with other worktrees):
        git diff -- pyx12 > p.diff; git apply -R p.diff; /venv/bin/python demo_{pid}.py; git apply p.diff; /venv/bin/python demo_{pid}.py
  - report: the diff, why it breaks the property, what exactly is needed for it to manifest, the commands you ran and
    their results.
If you notice that the UNCHANGED code already violates the property in some way, do not use that; mention it in your
report and pick something else.
'''

BENIGN = '''You are taking part in an evaluation of verification tooling for the Python package in this directory
(pyx12, an X12 EDI validator).  This directory ({wt}) is your own scratch git worktree; work ONLY inside it.
Do not read, list or touch /verif or /repo.

YOUR TASK: a BEHAVIOUR-PRESERVING refactoring of
    {target}
Make about ten independent, realistic refactorings of the kind a maintainer does while tidying up, for example:
extract a private helper method/function, inline a helper or a local, hoist a repeated sub-expression into a local,
rename locals, invert an if/else, turn an if/elif chain into a table lookup (or back), replace a loop by a
comprehension (or back), reorder independent statements or membership tuples, `not a == b` for `a != b`,
%-formatting to str.format / f-strings, merge duplicated blocks, early-return guards, enumerate() for index loops.
Hard constraints:
  - NO observable behaviour may change: same return values, same exceptions (type AND message), same error codes and
    messages, same counters, same order of reports, same text written to every output stream, for every input.
  - do not touch pyx12/test, do not rename public functions/methods/attributes or change signatures.
  - the full suite still passes:  cd {wt} && /venv/bin/python -m pytest -q -p no:cacheprovider pyx12/test   ("454 passed")
  - write {wt}/equiv_{bid}.py: a stand-alone script that exercises the refactored functions on many inputs (the sample
    documents in pyx12/test/x12testdata.py plus malformed variants; direct calls with edge-case arguments) and prints a
    digest of everything observable; run it on the original and on the refactored code and confirm the digests are
    IDENTICAL.  Do NOT use git stash (shared between worktrees); use
        git diff -- pyx12 > p.diff; git apply -R p.diff; <run>; git apply p.diff; <run>
When you are done leave the refactoring applied (uncommitted), save it with  git diff -- pyx12 > {wt}/patch.diff  and
report the list of refactorings, the suite result and both digests.
'''

TARGETS = {
    'B31': 'pyx12/error_html.py (class error_html, escape_html_chars, seg_str).  Structural refactorings: extracted helpers for the error blocks of gen_seg, table lookups, loop/comprehension conversions',
    'B32': 'pyx12/x12xml.py, pyx12/x12xml_simple.py and pyx12/xmlwriter.py.  Structural refactorings: shared helpers for the element/composite rendering, early returns, loop restructuring',
    'B33': 'pyx12/codes.py, pyx12/dataele.py and pyx12/map_index.py.  Structural refactorings: extracted loaders, comprehension/loop conversions, early returns, dict.get for try/except KeyError where equivalent',
    'B34': 'pyx12/x12context.py: class X12ContextReader (iter_segments, _add_segment, the counter resets) and X12SegmentDataNode.  Structural refactorings: split iter_segments into private helpers (map selection, tree building), early returns',
    'B35': 'pyx12/map_if.py: the constructors and lookup methods (map_if, loop_if, segment_if, element_if, composite_if __init__, getnodebypath, getnodebypath2, is_match, is_match_qual, get_child_node_by_idx/ordinal).  Structural refactorings: shared attribute-or-child-text accessor, extracted helpers, early returns',
    'B36': 'pyx12/error_handler.py: the node classes err_node, err_root, err_isa, err_gs, err_st, err_seg, err_ele, err_iter, errh_list, errh_null.  Structural refactorings: shared base-class helpers, early returns, comprehension/loop conversions',
    'B37': 'pyx12/x12file.py: class X12Writer (Write, Close, _popToLoop, _close_*, _write_*) and X12Reader.__iter__/cleanup.  Structural refactorings: table-driven trailer construction, merged _close_iea/_close_ge/_close_se, early returns',
    'B38': 'pyx12/scripts/x12norm.py, pyx12/scripts/x12valid.py and pyx12/params.py.  Structural refactorings: extracted option parsing and per-file functions, early returns',
    'B39': 'pyx12/map_walker.py (second pass: _check_seg_usage, _check_loop_usage, _flush_mandatory_segs, forceWalkCounterToLoopStart, pop_to_parent_loop, get_pop_loops/get_push_loops) and pyx12/syntax.py.  Structural refactorings of a different kind than splitting: merge, inline, invert, table-drive',
    'B40': 'pyx12/segment.py (second pass: Segment.set, get, _parse_refdes, append, __init__, Composite.__init__/__setitem__) and pyx12/validation.py (match_re, not_match_re, is_valid_time, contains_control_character).  Structural refactorings: early returns, merged branches, table lookups',
}


def main():
    what = sys.argv[1]
    os.makedirs(ROOT, exist_ok=True)
    if what == 'seeds':
        for l in open('/verif/properties.jsonl'):
            p = json.loads(l)
            pid = p['id']
            wt = '%s/%s' % (ROOT, pid)
            r = sh('git -C /repo worktree add --detach %s HEAD' % wt)
            if r.returncode:
                print(pid, r.stderr.strip()[:200])
                continue
            av = touched(pid)
            open(wt + '/TASK.txt', 'w').write(SEED.format(wt=wt, pid=pid, title=p['title'], statement=p['statement'], quantifier=p['quantifier'],
                                                           avoid='\n'.join('  - ' + a for a in av) or '  (none)'))
        print('seed worktrees ready')
    else:
        for bid, tgt in sorted(TARGETS.items()):
            wt = '%s/%s' % (ROOT, bid)
            r = sh('git -C /repo worktree add --detach %s HEAD' % wt)
            if r.returncode:
                print(bid, r.stderr.strip()[:200])
                continue
            open(wt + '/TASK.txt', 'w').write(BENIGN.format(wt=wt, bid=bid, target=tgt))
        print('benign worktrees ready')


if __name__ == '__main__':
    main()
