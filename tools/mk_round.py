#!/usr/bin/env python3
"""developer aid: prepare scratch worktrees + TASK.txt for a round of sub-agent seeds / benign refactorings.
usage: mk_round.py seeds|benign   (worktrees under /tmp/seed; nothing from /verif is copied except the property text)"""
import glob
import json
import os
import re
import subprocess
import sys

ROOT = '/tmp/seed'


def sh(c):
    return subprocess.run(c, shell=True, capture_output=True, text=True)


def touched(pid):
    out = []
    for d in sorted(glob.glob('/verif/seeded/%s-*/' % pid)):
        try:
            diff = open(d + 'patch.diff').read()
        except OSError:
            continue
        files = re.findall(r'^\+\+\+ b/(\S+)', diff, re.M)
        funcs = re.findall(r'^@@.*@@\s*(?:def|class)\s+(\w+)', diff, re.M)
        meta = json.load(open(d + 'meta.json'))
        out.append('%s (%s): %s' % (', '.join(files), ', '.join(sorted(set(funcs))) or 'see summary', meta.get('summary', '')[:220]))
    return out


SEED = '''You are taking part in an evaluation of verification tooling for the Python package in this directory
(pyx12, an X12 EDI validator).  This directory ({wt}) is your own scratch git worktree; work ONLY inside it.
Do not read, list or touch /verif or /repo.

PROPERTY {pid} - {title}

{statement}

Scope (quantifier): {quantifier}

YOUR TASK
Make ONE small, realistic change to the package source (under pyx12/, not the tests) of the kind a developer could
make by mistake (a refactoring slip, an over-eager optimisation, a wrong variable, an off-by-one, two sites that each
look fine and disagree) such that
  1. the package still imports and the full existing test suite still passes:
       cd {wt} && /venv/bin/python -m pytest -q -p no:cacheprovider pyx12/test      (expect "454 passed")
  2. the property above is BROKEN, but only for something specific: a particular schedule of calls, a rarely used
     parameter or input shape, a second document in the same process, a particular position in the file ... -
     ordinary use and the existing tests do not show it;
  3. you can demonstrate it: write {wt}/demo_{pid}.py, a stand-alone script (run with /venv/bin/python from {wt}) that
     exits 0 on the UNCHANGED code and exits non-zero (assertion) WITH your change.

Earlier participants already changed the following places for this property - choose a DIFFERENT function and a
DIFFERENT mechanism:
{avoid}

When you are done
  - leave the change applied (uncommitted) in the worktree and save it:  git diff -- pyx12 > {wt}/patch.diff
  - verify the demo both ways WITHOUT git stash (the stash is shared with other worktrees):
        git diff -- pyx12 > p.diff; git apply -R p.diff; /venv/bin/python demo_{pid}.py; git apply p.diff; /venv/bin/python demo_{pid}.py
  - report: the diff, why it breaks the property, what exactly is needed for it to manifest, the commands you ran and
    their results.
If you notice that the UNCHANGED code already violates the property in some way, do not use that; mention it in your
report and pick something else.
'''

BENIGN = '''You are taking part in an evaluation of verification tooling for the Python package in this directory
(pyx12, an X12 EDI validator).  This directory ({wt}) is your own scratch git worktree; work ONLY inside it.
Do not read, list or touch /verif or /repo.

YOUR TASK: a BEHAVIOUR-PRESERVING refactoring of
    {target}
Make about ten independent, realistic refactorings of the kind a maintainer does while tidying up, for example:
extract a private helper method/function, inline a helper or a local, hoist a repeated sub-expression into a local,
rename locals, invert an if/else, turn an if/elif chain into a table lookup (or back), replace a loop by a
comprehension (or back), reorder independent statements or membership tuples, `not a == b` for `a != b`,
%-formatting to str.format / f-strings, merge duplicated blocks, early-return guards, enumerate() for index loops.
Hard constraints:
  - NO observable behaviour may change: same return values, same exceptions (type AND message), same error codes and
    messages, same counters, same order of reports, same text written to every output stream, for every input.
  - do not touch pyx12/test, do not rename public functions/methods/attributes or change signatures.
  - the full suite still passes:  cd {wt} && /venv/bin/python -m pytest -q -p no:cacheprovider pyx12/test   ("454 passed")
  - write {wt}/equiv_{bid}.py: a stand-alone script that exercises the refactored functions on many inputs (the sample
    documents in pyx12/test/x12testdata.py plus malformed variants; direct calls with edge-case arguments) and prints a
    digest of everything observable; run it on the original and on the refactored code and confirm the digests are
    IDENTICAL.  Do NOT use git stash (shared between worktrees); use
        git diff -- pyx12 > p.diff; git apply -R p.diff; <run>; git apply p.diff; <run>
When you are done leave the refactoring applied (uncommitted), save it with  git diff -- pyx12 > {wt}/patch.diff  and
report the list of refactorings, the suite result and both digests.
'''

TARGETS = {
    'B41': 'pyx12/x12file.py: X12Base._parse_segment, X12Reader._parse_segment, X12Base._int, X12Reader.cleanup, the _isa_error/_gs_error/_st_error/_seg_error family.  Structural refactorings of a different kind than "extract helper": per-segment handler methods picked from a dict, merged trailer checks driven by a small table, early returns, locals for repeated get_value calls',
    'B42': 'pyx12/error_997.py and pyx12/error_999.py: visit_gs_post, visit_st_post, visit_seg, visit_ele, visit_root_pre/post, __get_gs_errors/__get_st_errors.  Structural refactorings: a shared private helper that builds the AK9 / AK5/IK5 segment, code tables as dicts or frozensets, loops to comprehensions, early returns',
    'B43': 'pyx12/map_walker.py: walk_tree.walk, _is_loop_match, _goto_seg_match, _seg_not_found_error, _pop_to_parent_loop, pop_to_parent_loop, is_first_seg_match2.  Structural refactorings: split walk into phases (search current loop / pop and retry), replace while-True/break by loop conditions, early returns, locals',
    'B44': 'pyx12/validation.py (IsValidDataType, is_valid_date, is_valid_time, the regex constants) and pyx12/dataele.py.  Structural refactorings: dispatch dict keyed by data type, extracted per-type predicates, re.fullmatch-equivalent rewrites ONLY where exactly equivalent, early returns',
    'B45': 'pyx12/x12n_document.py (x12n_document, _reset_counter_to_isa_counts, _reset_counter_to_gs_counts).  Structural refactorings: extract the per-segment body of the main loop and the map-switching blocks (ISA/GS/ST/BHT) into private functions, sink objects gathered in a list, early continue guards',
    'B46': 'pyx12/rawx12file.py (RawX12File.__init__, __iter__, the header parsing) and pyx12/x12file.py X12Reader.__init__/__iter__, X12Base.__init__.  Structural refactorings: extracted header parser, buffer handling through a local, loop restructuring that reads exactly the same chunks, early returns',
    'B47': 'pyx12/nodeCounter.py and pyx12/path.py (X12Path.__init__, format, is_match, is_child_path, empty, __eq__/__hash__).  Structural refactorings: comprehension/loop conversions, regex groups through named locals, early returns, dict.get / setdefault where exactly equivalent',
    'B48': 'pyx12/x12context.py: X12DataNode, X12LoopDataNode, X12SegmentDataNode (get_value, set_value, exists, select, add_segment, add_loop, add_node, delete, delete_segment, delete_node, copy, _get_insert_idx, _cleanup, iterate_segments, iterate_loop_segments).  Structural refactorings: shared private helpers for child insertion and lookup, generator/comprehension conversions, early returns',
    'B49': 'pyx12/map_if.py: segment_if.is_valid, element_if.is_valid, element_if._is_valid_code, element_if._error, element_if._valid_code, composite_if.is_valid, loop_if.get_max_repeat/get_cur_count and the usage checks.  Structural refactorings: guard clauses, extracted predicates, reordered independent checks ONLY where no report order changes, locals for repeated expressions',
    'B50': 'pyx12/xmlx12_simple.py, pyx12/error_handler.py class err_handler (add_isa_loop ... add_ele, seg_error, ele_error, close_*_loop, get_*), and pyx12/errh_xml.py.  Structural refactorings: table-driven dispatch, shared helpers, early returns, loop/comprehension conversions',
}


def main():
    what = sys.argv[1]
    os.makedirs(ROOT, exist_ok=True)
    if what == 'seeds':
        for l in open('/verif/properties.jsonl'):
            p = json.loads(l)
            pid = p['id']
            wt = '%s/%s' % (ROOT, pid)
            r = sh('git -C /repo worktree add --detach %s HEAD' % wt)
            if r.returncode:
                print(pid, r.stderr.strip()[:200])
                continue
            av = touched(pid)
            open(wt + '/TASK.txt', 'w').write(SEED.format(wt=wt, pid=pid, title=p['title'], statement=p['statement'], quantifier=p['quantifier'],
                                                           avoid='\n'.join('  - ' + a for a in av) or '  (none)'))
        print('seed worktrees ready')
    else:
        for bid, tgt in sorted(TARGETS.items()):
            wt = '%s/%s' % (ROOT, bid)
            r = sh('git -C /repo worktree add --detach %s HEAD' % wt)
            if r.returncode:
                print(bid, r.stderr.strip()[:200])
                continue
            open(wt + '/TASK.txt', 'w').write(BENIGN.format(wt=wt, bid=bid, target=tgt))
        print('benign worktrees ready')


if __name__ == '__main__':
    main()
