#!/usr/bin/env python3
"""developer aid: apply every /verif/seeded/<id>/patch.diff to /repo in turn (git apply), run all quick checks,
undo (git checkout -- .), and record which checks report it in meta.json.  /repo is always restored."""
import glob, json, os, subprocess, sys, shutil
def sh(cmd, cwd=None):
    r = subprocess.run(cmd, shell=True, cwd=cwd, capture_output=True, text=True); return r.returncode, r.stdout + r.stderr
rc, out = sh('git -C /repo status --porcelain')
if out.strip(): sys.exit('/repo not clean')
man = json.load(open('/verif/MANIFEST.json'))
only = sys.argv[1:] 
missed = []
for d in sorted(glob.glob('/verif/seeded/*/')):
    sid = os.path.basename(d.rstrip('/'))
    if only and sid not in only: continue
    rc, out = sh('git -C /repo apply %s' % os.path.join(d, 'patch.diff'))
    if rc: print(sid, 'PATCH DOES NOT APPLY', out[:100]); continue
    caught = {}
    try:
        for c in man['checks']:
            pid = c['property_id']
            rc, out = sh('python3 sa/check.py %s --no-evidence --evidence-dir /tmp/seed_ev' % pid, '/verif')
            if rc != 0:
                caught[pid] = {'rc': rc, 'reports': [l.strip()[:300] for l in out.splitlines() if l.startswith(('  pyx12', '  setup', 'ANALYSIS'))][:4]}
    finally:
        sh('git -C /repo checkout -- .'); shutil.rmtree('/tmp/seed_ev', ignore_errors=True)
    mp = os.path.join(d, 'meta.json'); m = json.load(open(mp)); m['caught_by'] = caught; json.dump(m, open(mp, 'w'), indent=1)
    own = sid.split('-')[0]
    print(sid, {k: v['rc'] for k, v in caught.items()})
    if caught.get(own, {}).get('rc') != 1: missed.append(sid)
print('seeds not reported (exit 1) by their own property:', missed)
