#!/bin/sh
# developer aid: run every registered check (quick by default) against /repo and show one line each
cd /verif
tier=${1:-quick}
for p in $(python3 -c "import json;print(' '.join(c['property_id'] for c in json.load(open('MANIFEST.json'))['checks']))"); do
  out=$(python3 sa/check.py $p --tier $tier 2>&1); rc=$?
  echo "$p rc=$rc $(echo "$out" | grep "^$p $tier" | head -1) known=$(echo "$out" | grep -c '^KNOWN-FINDING')"
  if [ $rc -ne 0 ]; then echo "$out" | grep -A1 "^VIOLATION\|^ANALYSIS" | head -20; fi
done
