#!/usr/bin/env python3
"""Triage aid (never run by a check): merge hand-triaged failing instances into known_findings.json.
usage: python3 sa/check.py Cxx --no-evidence --dump-fails | grep ^FAIL | cut -c6- | python3 tools/kf_add.py [--note TEXT]
"""
import json, sys, os
p = os.path.join(os.path.dirname(os.path.dirname(os.path.abspath(__file__))), 'known_findings.json')
doc = json.load(open(p)) if os.path.exists(p) else {'comment': 'committed; never written at run time. status "known" turns exactly that (rule,key) into a KNOWN-FINDING line; "fixed: <commit>" suppresses nothing', 'findings': []}
have = {(f['rule'], f['key']) for f in doc['findings']}
note = sys.argv[sys.argv.index('--note') + 1] if '--note' in sys.argv else None
n = 0
for l in sys.stdin:
    l = l.strip()
    if not l: continue
    e = json.loads(l)
    if (e['rule'], e['key']) in have: continue
    if note: e['triage'] = note
    doc['findings'].append(e); have.add((e['rule'], e['key'])); n += 1
json.dump(doc, open(p, 'w'), indent=1)
print('added', n)
