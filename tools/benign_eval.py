#!/usr/bin/env python3
"""developer aid: a behaviour-preserving refactoring must not be accused.
usage: benign_eval.py <dir with patch.diff> [...]   -> applies each to /repo, runs every quick check, reverts.
exit 1 of a check = false alarm; exit 2 = unrecognised idiom (acceptable, but listed)."""
import json
import os
import shutil
import subprocess
import sys


def sh(cmd, cwd=None):
    r = subprocess.run(cmd, shell=True, cwd=cwd, capture_output=True, text=True, timeout=1800)
    return r.returncode, r.stdout + r.stderr


def main():
    man = json.load(open('/verif/MANIFEST.json'))
    for d in sys.argv[1:]:
        patch = os.path.abspath(os.path.join(d, 'patch.diff'))
        rc, out = sh('git -C /repo status --porcelain')
        if out.strip():
            sys.exit('/repo not clean')
        rc, out = sh('git -C /repo apply %s' % patch)
        if rc:
            print(d, 'PATCH DOES NOT APPLY', out[:200])
            continue
        try:
            for c in man['checks']:
                pid = c['property_id']
                rc, out = sh('python3 sa/check.py %s --no-evidence --evidence-dir /tmp/benign_ev' % pid, '/verif')
                if rc:
                    lines = [l.strip() for l in out.splitlines() if l.startswith('  pyx12') or l.startswith('ANALYSIS') or l.startswith('  setup')]
                    print(os.path.basename(d), pid, 'rc=%d' % rc)
                    for l in lines[:6]:
                        print('     ', l[:260])
        finally:
            sh('git -C /repo checkout -- .')
            sh('git -C /repo clean -fdq pyx12')
            shutil.rmtree('/tmp/benign_ev', ignore_errors=True)
        print(os.path.basename(d), 'done')


if __name__ == '__main__':
    main()
