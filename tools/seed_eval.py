#!/usr/bin/env python3
"""developer aid: confirm a seeded change and run the registered checks against it.

usage: seed_eval.py <worktree dir with patch.diff + demo_*.py> [--keep <seed id>]
 1. in the worktree: suite passes WITH the change, demo fails WITH it, demo passes WITHOUT it (git stash)
 2. git -C /repo apply patch ; run every quick check ; git -C /repo checkout -- .   (always undone)
 3. with --keep: copy patch.diff, the demo and meta.json to /verif/seeded/<id>/
"""
import glob
import json
import os
import shutil
import subprocess
import sys

PY = '/venv/bin/python'


def sh(cmd, cwd=None, timeout=900):
    r = subprocess.run(cmd, shell=True, cwd=cwd, capture_output=True, text=True, timeout=timeout)
    return r.returncode, (r.stdout + r.stderr)


def main():
    wt = os.path.abspath(sys.argv[1])
    keep = sys.argv[sys.argv.index('--keep') + 1] if '--keep' in sys.argv else None
    patch = os.path.join(wt, 'patch.diff')
    demos = glob.glob(os.path.join(wt, 'demo_*.py'))
    if not os.path.isfile(patch) or not demos:
        sys.exit('patch.diff or demo missing in %s' % wt)
    demo = os.path.basename(demos[0])
    res = {}
    # the worktree is put into exactly the state patch.diff describes (git stash is shared between worktrees: not used)
    sh('git checkout -- pyx12', wt)
    rc, out = sh('git apply patch.diff', wt)
    if rc:
        sys.exit('patch.diff does not apply in the worktree: %s' % out)
    rc, out = sh('git diff --stat -- pyx12', wt)
    res['diffstat'] = out.strip().splitlines()[-1] if out.strip() else 'EMPTY'
    rc, out = sh('%s -m pytest -q -p no:cacheprovider pyx12/test 2>&1 | tail -1' % PY, wt)
    res['suite_with_change'] = out.strip()
    rc1, out1 = sh('%s %s' % (PY, demo), wt)
    res['demo_with_change_rc'] = rc1
    sh('git apply -R patch.diff', wt)
    try:
        rc0, out0 = sh('%s %s' % (PY, demo), wt)
    finally:
        sh('git apply patch.diff', wt)
    res['demo_without_change_rc'] = rc0
    confirmed = ('454 passed' in res['suite_with_change']) and rc1 != 0 and rc0 == 0
    res['confirmed'] = confirmed
    # run the checks against a scratch copy of /repo with the patch applied (never /repo itself)
    var = '/dev/shm/seed_eval_%d' % os.getpid()
    rc, out = sh('sh /verif/tools/mkvariant.sh %s %s' % (patch, var))
    if rc:
        sys.exit('patch does not apply to a copy of /repo: %s' % out)
    caught = {}
    try:
        man = json.load(open('/verif/MANIFEST.json'))
        for c in man['checks']:
            pid = c['property_id']
            rc, out = sh('python3 sa/check.py %s --no-evidence --no-selftest --repo %s' % (pid, var), '/verif')
            if rc != 0:
                lines = [l.strip() for l in out.splitlines() if l.startswith('  pyx12') or l.startswith('  setup') or l.startswith('ANALYSIS')]
                caught[pid] = {'rc': rc, 'reports': lines[:4]}
    finally:
        shutil.rmtree(var, ignore_errors=True)
    res['caught_by'] = caught
    print(json.dumps(res, indent=1))
    if keep:
        d = os.path.join('/verif/seeded', keep)
        os.makedirs(d, exist_ok=True)
        shutil.copy(patch, os.path.join(d, 'patch.diff'))
        shutil.copy(os.path.join(wt, demo), os.path.join(d, demo))
        meta = {'id': keep, 'breaks_property': keep.split('-')[0], 'confirmed': confirmed,
                'what_i_ran': ['cd <scratch worktree> && /venv/bin/python -m pytest -q -p no:cacheprovider pyx12/test  -> %s' % res['suite_with_change'],
                               '/venv/bin/python %s with the change -> exit %d' % (demo, rc1),
                               '/venv/bin/python %s without the change (git apply -R) -> exit %d' % (demo, rc0),
                               'scratch copy of /repo + patch.diff; python3 sa/check.py <every property> --repo <copy>'],
                'caught_by': caught, 'needs_to_manifest': '', 'summary': ''}
        mp = os.path.join(d, 'meta.json')
        if os.path.exists(mp):
            old = json.load(open(mp))
            meta['needs_to_manifest'] = old.get('needs_to_manifest', '')
            meta['summary'] = old.get('summary', '')
        json.dump(meta, open(mp, 'w'), indent=1)


if __name__ == '__main__':
    main()
