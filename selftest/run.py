"""Self-test of the rules (both directions) on scratch copies of /repo.

For every variant of selftest/variants.py: copy /repo/pyx12 (+ setup.py) to a fresh temporary directory outside
/repo and /verif, apply ONE textual edit, byte-compile the edited file (the variant must still compile), run the
property's check with --repo on the copy, and require
  * breaking variant -> exit 1 with a VIOLATION that names the expected rule,
  * benign twin      -> exit 0 (silent).
The directory is removed immediately.  Used by `check.py Cxx --tier thorough` and by `python3 selftest/run.py`.
"""
import concurrent.futures
import os
import shutil
import subprocess
import sys
import tempfile

HERE = os.path.dirname(os.path.abspath(__file__))
VERIF = os.path.dirname(HERE)
sys.path.insert(0, VERIF)
REPO = '/repo'


def _scratch_base():
    for d in (os.environ.get('VERIF_SCRATCH'), '/dev/shm', tempfile.gettempdir()):
        if d and os.path.isdir(d) and os.access(d, os.W_OK):
            return d
    return tempfile.gettempdir()


def run_variant(v):
    vid, pid, rel, old, new, kind, rule = v
    d = tempfile.mkdtemp(prefix='vst_', dir=_scratch_base())
    try:
        pk = os.path.join(d, 'pyx12')
        os.makedirs(pk)
        for name in os.listdir(os.path.join(REPO, 'pyx12')):
            src = os.path.join(REPO, 'pyx12', name)
            if name in ('test', 'tests', '__pycache__'):
                continue
            dst = os.path.join(pk, name)
            if name == 'map' and not rel.startswith('pyx12/map/'):
                os.symlink(src, dst)
            elif os.path.isdir(src):
                shutil.copytree(src, dst, ignore=shutil.ignore_patterns('__pycache__'))
            else:
                shutil.copy(src, dst)
        shutil.copy(os.path.join(REPO, 'setup.py'), os.path.join(d, 'setup.py'))
        p = os.path.join(d, rel)
        with open(p, encoding='utf-8') as fd:
            s = fd.read()
        if s.count(old) < 1:
            return (vid, False, 'variant does not apply any more (text not found): the code under the rule changed, refresh the variant')
        s = s.replace(old, new, 1)
        with open(p, 'w', encoding='utf-8') as fd:
            fd.write(s)
        if p.endswith('.py'):
            r = subprocess.run([sys.executable, '-W', 'ignore', '-c', 'import ast,sys; ast.parse(open(sys.argv[1]).read())', p], capture_output=True, text=True)
            if r.returncode:
                return (vid, False, 'variant does not compile')
        r = subprocess.run([sys.executable, os.path.join(VERIF, 'sa', 'check.py'), pid, '--repo', d, '--no-evidence', '--no-selftest',
                            '--evidence-dir', os.path.join(d, 'ev')], capture_output=True, text=True, timeout=1800)
        out = r.stdout
        if kind == 'break':
            hit = [l for l in out.splitlines() if l.startswith('  ') and ('  %s  ' % rule) in l]
            if r.returncode == 1 and hit:
                return (vid, True, hit[0].strip()[:200])
            return (vid, False, 'breaking variant not reported by %s (exit %d): %s' % (rule, r.returncode, (out.strip().splitlines() or [''])[-1][:160]))
        else:
            if r.returncode == 0:
                return (vid, True, 'silent')
            bad = [l for l in out.splitlines() if l.startswith(('VIOLATION', 'ANALYSIS-ERROR', '  '))]
            return (vid, False, 'benign twin raised an alarm (exit %d): %s' % (r.returncode, ' | '.join(x.strip()[:140] for x in bad[:2])))
    except Exception as e:  # noqa
        return (vid, False, 'self-test harness error: %s: %s' % (type(e).__name__, e))
    finally:
        shutil.rmtree(d, ignore_errors=True)


def _copy_repo(d, with_maps):
    pk = os.path.join(d, 'pyx12')
    os.makedirs(pk)
    for name in os.listdir(os.path.join(REPO, 'pyx12')):
        src = os.path.join(REPO, 'pyx12', name)
        if name in ('test', 'tests', '__pycache__'):
            continue
        dst = os.path.join(pk, name)
        if name == 'map' and not with_maps:
            os.symlink(src, dst)
        elif os.path.isdir(src):
            shutil.copytree(src, dst, ignore=shutil.ignore_patterns('__pycache__'))
        else:
            shutil.copy(src, dst)
    shutil.copy(os.path.join(REPO, 'setup.py'), os.path.join(d, 'setup.py'))


def run_patch(job):
    """stored multi-line changes: seeded/<id>/patch.diff must be reported (exit 1) by the check of the property it
    breaks, benign/<id>/patch.diff (a behaviour-preserving refactoring) must leave the check silent"""
    kind, name, patch, pid = job
    vid = '%s:%s' % (kind, name)
    d = tempfile.mkdtemp(prefix='vsp_', dir=_scratch_base())
    try:
        with open(patch, encoding='utf-8', errors='replace') as fd:
            touches_map = 'pyx12/map/' in fd.read()
        _copy_repo(d, touches_map)
        r = subprocess.run(['patch', '-p1', '-s', '--no-backup-if-mismatch', '-i', patch], cwd=d, capture_output=True, text=True)
        if r.returncode:
            return (vid, False, 'stored patch does not apply any more: refresh it (%s)' % (r.stdout + r.stderr).strip()[:120])
        r = subprocess.run([sys.executable, os.path.join(VERIF, 'sa', 'check.py'), pid, '--repo', d, '--no-evidence', '--no-selftest',
                            '--evidence-dir', os.path.join(d, 'ev')], capture_output=True, text=True, timeout=1800)
        hits = [l.strip() for l in r.stdout.splitlines() if l.startswith('  pyx12') or l.startswith('ANALYSIS-ERROR')]
        if kind == 'seeded':
            if r.returncode == 1:
                return (vid, True, (hits or ['reported'])[0][:200])
            return (vid, False, 'seeded change is not reported (exit %d)' % r.returncode)
        if r.returncode == 0:
            return (vid, True, 'silent')
        if r.returncode == 2 and pid in _undecided().get(name, ()):
            return (vid, True, 'undecided (exit 2, listed in benign/UNDECIDED.json): no violation reported')
        return (vid, False, 'behaviour-preserving refactoring raised an alarm (exit %d): %s' % (r.returncode, ' | '.join(h[:140] for h in hits[:2])))
    except Exception as e:  # noqa
        return (vid, False, 'self-test harness error: %s: %s' % (type(e).__name__, e))
    finally:
        shutil.rmtree(d, ignore_errors=True)


def _undecided():
    import json
    try:
        with open(os.path.join(VERIF, 'benign', 'UNDECIDED.json')) as fd:
            return {k: tuple(v.get('checks', ())) for k, v in json.load(fd).get('undecided', {}).items()}
    except (OSError, ValueError):
        return {}


def patch_jobs(pid):
    import glob
    jobs = []
    for p in sorted(glob.glob(os.path.join(VERIF, 'seeded', '*', 'patch.diff'))):
        name = os.path.basename(os.path.dirname(p))
        if pid is None or name.split('-')[0] == pid:
            jobs.append(('seeded', name, p, name.split('-')[0]))
    if pid is not None:
        for p in sorted(glob.glob(os.path.join(VERIF, 'benign', '*', 'patch.diff'))):
            jobs.append(('benign', os.path.basename(os.path.dirname(p)), p, pid))
    return jobs


def run_property(pid=None, jobs=16, patches=True):
    from selftest.variants import VARIANTS
    vs = [v for v in VARIANTS if pid is None or v[1] == pid]
    results = []
    if vs:
        with concurrent.futures.ThreadPoolExecutor(max_workers=max(1, min(jobs, len(vs)))) as ex:
            results = list(ex.map(run_variant, vs))
    pj = patch_jobs(pid) if patches and shutil.which('patch') else []
    if pj:
        with concurrent.futures.ThreadPoolExecutor(max_workers=max(1, min(jobs, len(pj)))) as ex:
            results += list(ex.map(run_patch, pj))
        vs = vs + [(j[0] + ':' + j[1], j[3], '', '', '', 'break' if j[0] == 'seeded' else 'benign', None) for j in pj]
    failed = ['%s: %s' % (vid, msg) for vid, ok, msg in results if not ok]
    nb = sum(1 for v in vs if v[5] == 'break')
    return {'summary': {'variants': len(vs), 'breaking': nb, 'benign': len(vs) - nb, 'passed': sum(1 for r in results if r[1]),
                        'failed': failed, 'samples': ['%s -> %s' % (vid, msg) for vid, ok, msg in results[:6]]},
            'failed': failed, 'results': results}


if __name__ == '__main__':
    pid = sys.argv[1] if len(sys.argv) > 1 and not sys.argv[1].startswith('-') else None
    res = run_property(pid, patches='--patches' in sys.argv or pid is not None)
    for vid, ok, msg in res['results']:
        print('%s %-40s %s' % ('ok  ' if ok else 'FAIL', vid, msg[:150]))
    s = res['summary']
    print('%d variants (%d breaking, %d benign): %d passed, %d failed' % (s['variants'], s['breaking'], s['benign'], s['passed'], len(s['failed'])))
    sys.exit(1 if res['failed'] else 0)
