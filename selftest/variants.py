"""Breaking variants (one broken instance per rule) and benign twins (behaviour-preserving rewrites).

(id, property, file relative to the scratch root, old text, new text, 'break'|'benign', rule expected to fire)
Every edit is applied to a scratch copy, never to /repo.
"""
B, OK = 'break', 'benign'
X12 = 'pyx12/x12file.py'
RAW = 'pyx12/rawx12file.py'
VAL = 'pyx12/validation.py'
MIF = 'pyx12/map_if.py'
WLK = 'pyx12/map_walker.py'
CTX = 'pyx12/x12context.py'
EH = 'pyx12/error_handler.py'
E97 = 'pyx12/error_997.py'
E99 = 'pyx12/error_999.py'
HTM = 'pyx12/error_html.py'
DOC = 'pyx12/x12n_document.py'
SEG = 'pyx12/segment.py'
PTH = 'pyx12/path.py'
SYN = 'pyx12/syntax.py'
XMS = 'pyx12/x12xml_simple.py'
XMW = 'pyx12/xmlwriter.py'
XMR = 'pyx12/xmlx12_simple.py'
NRM = 'pyx12/scripts/x12norm.py'

VARIANTS = [
    # ---------------------------------------------------------------- C01
    ('c01-lose-buffer', 'C01', RAW, "self.buffer += chunk", "self.buffer = chunk", B, 'C01.R3'),
    ('c01-empty-token-ends', 'C01', RAW, "                # Empty segment, skip it\n                continue", "                break", B, 'C01.R3'),
    ('c01-single-refill', 'C01', RAW, "                if chunk == '':\n                    # End of stream, no further segment terminator\n                    break\n                self.buffer += chunk\n                continue",
     "                self.buffer += chunk\n                if self.buffer.find(self.seg_term) == -1:\n                    break\n                continue", B, 'C01.R3'),
    ('c01-strip-blanks', 'C01', RAW, "line.lstrip('\\n\\r')", "line.lstrip()", B, 'C01.R5'),
    ('c01-isa16-offset', 'C01', RAW, "self.subele_term = line[-2]", "self.subele_term = line[-3]", B, 'C01.R2'),
    ('c01-benign-offset', 'C01', RAW, "self.subele_term = line[-2]", "self.subele_term = line[104]", OK, None),
    ('c01-benign-strip-order', 'C01', RAW, "line.lstrip('\\n\\r')", "line.lstrip('\\r\\n')", OK, None),
    ('c01-literal-delim', 'C01', X12, "pyx12.segment.Segment(line, self.seg_term, self.ele_term, self.subele_term)", "pyx12.segment.Segment(line, self.seg_term, self.ele_term, ':')", B, 'C01.R4'),
    ('c01-isa-subsplit', 'C01', SEG, "self.elements.append(Composite(ele, ele_term))", "self.elements.append(Composite(ele, subele_term))", B, 'C01.R6'),
    ('c01-open-mode', 'C01', X12, "open(src_file_obj, 'r', encoding='ascii')", "open(src_file_obj, 'rU', encoding='ascii')", B, 'C01.R1'),
    ('c01-version-whitelist', 'C01', RAW, "if self.icvn not in ('00401', '00501'):", "if self.icvn not in ('00401', '00501', '00402'):", B, 'C01.R2'),
    # ---------------------------------------------------------------- C02
    ('c02-repeat-ge', 'C02', WLK, "if self.counter.get_count(loop_node.x12path) > loop_node.get_max_repeat():", "if self.counter.get_count(loop_node.x12path) >= loop_node.get_max_repeat():", B, 'C02.R12'),
    ('c02-path-typo', 'C02', DOC, "cur_map.getnodebypath('/ISA_LOOP/GS_LOOP/GS')", "cur_map.getnodebypath('/ISA_LOOP/GS_LOOP/GS1')", B, 'C02.R2'),
    ('c02-bht-tuple', 'C02', DOC, "if vriic in ('004010X094', '004010X094A1'):", "if vriic in ('004010X094',):", B, 'C02.R1'),
    ('c02-drop-tm', 'C02', VAL, "        elif data_type == 'TM':\n            if not is_valid_time(str_val):\n                raise IsValidError\n", "", B, 'C02.R3'),
    ('c02-matcher-index', 'C02', MIF, "elif seg.get_seg_id() == 'HL' and self.children[2].is_element()", "elif seg.get_seg_id() == 'HL' and self.children[4].is_element()", B, 'C02.R4'),
    ('c02-map-gs08', 'C02', 'pyx12/map/837.4010.X098.A1.xml', "<code>004010X098A1</code>", "<code>004010X098A2</code>", B, 'C02.R1'),
    # ---------------------------------------------------------------- C03
    ('c03-drop-add-ele', 'C03', MIF, "        errh.add_ele(self)\n\n        if elem and elem.is_composite():", "\n        if elem and elem.is_composite():", B, 'C03.R1'),
    ('c03-drop-comp-add-ele', 'C03', MIF, "        valid = True\n        errh.add_ele(self)\n        if (comp_data is None", "        valid = True\n        if (comp_data is None", B, 'C03.R1'),
    ('c03-swap-args', 'C03', DOC, "errh.add_seg(node, seg, src.get_seg_count(), src.get_cur_line(), src.get_ls_id())\n                errh.handle_errors(src.pop_errors())\n\n            #errh.set_cur_line",
     "errh.add_seg(node, seg, src.get_cur_line(), src.get_seg_count(), src.get_ls_id())\n                errh.handle_errors(src.pop_errors())\n\n            #errh.set_cur_line", B, 'C03.R3'),
    ('c03-swap-codes', 'C03', MIF, "                self._error(errh, err_str, '4', elem_val)\n                valid = False\n            if len(elem_strip) > max_len:",
     "                self._error(errh, err_str, '5', elem_val)\n                valid = False\n            if len(elem_strip) > max_len:", B, 'C03.R4'),
    ('c03-drop-add-seg', 'C03', WLK, "        errh.add_seg(orig_node, seg_data, seg_count, cur_line, ls_id)\n", "", B, 'C03.R2'),
    # ---------------------------------------------------------------- C04
    ('c04-ge-id-skip', 'C04', X12, "if self.loops[-1][1] != seg_data.get_value('GE02'):", "if self.loops[-1][1] != seg_data.get_value('GE02') and seg_data.get_value('GE02'):", B, 'C04.R6'),
    ('c04-gs-count-reset', 'C04', X12, "            self.gs_count = 0\n", "            self.gs_count = 1\n", B, 'C04.R7'),
    ('c04-cleanup-level', 'C04', X12, "                    err_str += '(GE={}) missing'.format(id1)\n                    self._gs_error('3', err_str)", "                    err_str += '(GE={}) missing'.format(id1)\n                    self._st_error('3', err_str)", B, 'C04.R9'),
    ('c04-hl-parent-pop', 'C04', X12, "while self.hl_stack and hl_parent != self.hl_stack[-1]:", "while len(self.hl_stack) > 1 and hl_parent != self.hl_stack[-1]:", B, 'C04.R7'),
    ('c04-drop-st-ids-reset', 'C04', X12, "            self.st_ids = []\n", "", B, 'C04.R1'),
    ('c04-seg-count-reset', 'C04', X12, "self.seg_count = 1", "self.seg_count = 0", B, 'C04.R1'),
    ('c04-se-compare', 'C04', X12, "!= self.seg_count + 1:", "!= self.seg_count:", B, 'C04.R1'),
    ('c04-unguard', 'C04', X12, "if self.loops and self.loops[-1][0] != 'GS':", "if self.loops[-1][0] != 'GS':", B, 'C04.R2'),
    ('c04-hl-stack', 'C04', X12, "            self.hl_stack = []\n            self.hl_count = 0\n            transaction", "            self.hl_count = 0\n            transaction", B, 'C04.R1'),
    ('c04-benign-len-guard', 'C04', X12, "if self.loops and self.loops[-1][0] != 'GS':", "if len(self.loops) > 0 and self.loops[-1][0] != 'GS':", OK, None),
    ('c04-gs06', 'C04', X12, "group_control_number = seg_data.get_value('GS06')", "group_control_number = seg_data.get_value('GS05')", B, 'C04.R1'),
    ('c04-count-set', 'C04', X12, "('ISA', 'IEA', 'GS', 'GE', 'ST', 'SE'):", "('ISA', 'IEA', 'GS', 'GE', 'ST', 'SE', 'HL'):", B, 'C04.R1'),
    ('c04-int-total', 'C04', X12, "        except (ValueError, TypeError):\n            return None", "        except ValueError:\n            return None", B, 'C04.R3'),
    ('c04-benign-plus-one', 'C04', X12, "!= self.seg_count + 1:", "!= 1 + self.seg_count:", OK, None),
    # ---------------------------------------------------------------- C05
    ('c05-ak9-swap', 'C05', E97, "seg_data.append('%i' % err_gs.st_count_orig)\n        seg_data.append('%i' % err_gs.st_count_recv)", "seg_data.append('%i' % err_gs.st_count_recv)\n        seg_data.append('%i' % err_gs.st_count_orig)", B, 'C05.R16'),
    ('c05-failed-e', 'C05', EH, "if child.ack_code not in ['A', 'E']:", "if child.ack_code not in ['A']:", B, 'C05.R15'),
    ('c05-verdict-gt1', 'C05', DOC, "if not valid or errh.get_error_count() > 0:", "if not valid or errh.get_error_count() > 1:", B, 'C05.R1'),
    ('c05-verdict-and', 'C05', DOC, "if not valid or errh.get_error_count() > 0:", "if not valid and errh.get_error_count() > 0:", B, 'C05.R1'),
    ('c05-benign-verdict', 'C05', DOC, "if not valid or errh.get_error_count() > 0:", "if errh.get_error_count() >= 1 or not valid:", OK, None),
    ('c05-drop-tag', 'C05', EH, "            elif err_type == 'st':\n                self.st_error(err_cde, err_str)\n", "", B, 'C05.R3'),
    ('c05-ak3-codes', 'C05', E97, "valid_AK3_codes = ('1', '2', '3', '4', '5', '6', '7', '8')", "valid_AK3_codes = ('1', '2', '3', '4', '6', '7', '8')", B, 'C05.R4'),
    ('c05-ak904', 'C05', E99, "count_ok = max(err_gs.st_count_recv - err_gs.count_failed_st(), 0)", "count_ok = max(err_gs.st_count_orig - err_gs.count_failed_st(), 0)", B, 'C05.R6'),
    ('c05-st-elements', 'C05', EH, "        ele_err_ct = 0\n        for ele in self.elements:\n            ele_err_ct += ele.get_error_count()\n        return len(self.errors) + seg_err_ct + ele_err_ct",
     "        return len(self.errors) + seg_err_ct", B, 'C05.R2'),
    # ---------------------------------------------------------------- C06
    ('c06-direct-write', 'C06', E97, "        self._write(seg_data)\n\n    def __get_st_errors", "        self.fd.write(seg_data.format('~', '*', ':') + '\\n')\n\n    def __get_st_errors", B, 'C06.R1'),
    ('c06-new-echo', 'C06', E99, "seg_base.set('02', '%i' % err_seg.seg_count)", "seg_base.set('02', err_seg.seg_id)", B, 'C06.R3'),
    ('c06-se-count', 'C06', E97, "seg_count = self.seg_count + 1", "seg_count = self.seg_count", B, 'C06.R6'),
    ('c06-gs08-icvn', 'C06', E97, "gs_seg.append('004010')", "gs_seg.append(icvn)", B, 'C06.R2'),
    ('c06-unguarded-lookup', 'C06', E99, "                    if elem.ele_pos in st_ele_err_map:\n                        err_codes.append(st_ele_err_map[elem.ele_pos])", "                    err_codes.append(st_ele_err_map[elem.ele_pos])", B, 'C06.R4'),
    ('c06-benign-vriic', 'C06', E99, "self.vriic = '005010X231'", "self.vriic = '005010X231A1'", OK, None),
    # ---------------------------------------------------------------- C07
    ('c07-new-raise', 'C07', WLK, "        if len(loop_node) <= 0:  # Has no children\n            return False", "        if len(loop_node) <= 0:  # Has no children\n            raise EngineError('Loop %s has no children' % loop_node.id)", B, 'C07.R1'),
    ('c07-unguard-token', 'C07', X12, "            if line and line[-1] == self.ele_term:", "            if line[-1] == self.ele_term:", B, 'C07.R2'),
    ('c07-wrong-refdes', 'C07', EH, "self.vriic = self.seg_data.get_value('GS08')", "self.vriic = self.seg_data.get_value('ST03')", B, 'C07.R1b'),
    ('c07-unbound', 'C07', DOC, "    icvn = fic = vriic = tspc = None", "    icvn = fic = tspc = None", B, 'C07.R2'),
    ('c07-none-node', 'C07', EH, "        if self.cur_gs_node is None:\n            # No functional group is open (orphan GE): report on the interchange\n            self.isa_error(err_cde, err_str)\n            return\n", "", B, 'C07.R2'),
    ('c07-xml-bound', 'C07', XMS, "for i in range(min(len(seg_data), seg_node.get_child_count())):", "for i in range(len(seg_data)):", B, 'C07.R2'),
    ('c07-undefined-self', 'C07', CTX, "        self._reset_counter_to_gs_counts()", "        self._reset_gs_counts()", B, 'C07.R2'),
    # ---------------------------------------------------------------- C08
    ('c08-tag', 'C08', XMS, 'return ("subele", {', 'return ("sub", {', B, 'C08.R1'),
    ('c08-esc-order', 'C08', XMW, 'return text.replace("&", "&amp;")\\\n            .replace("<", "&lt;").replace(">", "&gt;")', 'return text.replace("<", "&lt;").replace("&", "&amp;").replace(">", "&gt;")', B, 'C08.R2'),
    ('c08-apos', 'C08', XMW, '.replace("\'", "&apos;")', '', B, 'C08.R2'),
    ('c08-drop-pop', 'C08', XMS, "                self.writer.pop()  # end composite\n", "", B, 'C08.R3'),
    ('c08-reader-skip', 'C08', XMR, "if subele.text is not None and subele.text != '':", "if subele.text is not None:", B, 'C08.R4'),
    # ---------------------------------------------------------------- C09
    ('c09-lose-seg', 'C09', CTX, "                yield cur_data_node\n        if cur_tree", "                if cur_data_node.err_ct == 0 or loop_id is None:\n                    yield cur_data_node\n        if cur_tree", B, 'C09.R2'),
    ('c09-crossed', 'C09', CTX, "                    cur_data_node = X12SegmentDataNode(self.x12_map_node, seg)\n                    cur_data_node.seg_count = self.src.get_seg_count()",
     "                    cur_data_node = X12SegmentDataNode(self.x12_map_node, seg)\n                    cur_data_node.seg_count = self.src.get_cur_line()", B, 'C09.R3'),
    ('c09-no-rebind', 'C09', CTX, "                    yield cur_tree\n                    cur_tree = None", "                    yield cur_tree", B, 'C09.R1'),
    ('c09-no-flush', 'C09', CTX, "        if cur_tree is not None:\n            # The source ended inside the requested loop\n            yield cur_tree\n", "", B, 'C09.R1'),
    # ---------------------------------------------------------------- C10
    ('c10-insert-before-later', 'C10', 'pyx12/x12context.py', "        if idx is not None:\n            return idx + 1\n        return 0\n", "        if idx is not None:\n            return idx + 1\n        return len(self.children)\n", B, 'C10.R5'),
    ('c10-share-end-loops', 'C10', CTX, "        ret.end_loops = list(self.end_loops)\n        ret.parent = self.parent", "        ret.end_loops = self.end_loops\n        ret.parent = self.parent", B, 'C10.R1'),
    ('c10-no-parent', 'C10', CTX, "        data_node.parent = self\n        child_idx", "        child_idx", B, 'C10.R2'),
    ('c10-unfiltered', 'C10', CTX, "        for child in [x for x in self.children if x.type is not None]:\n            for a in child.iterate_segments():", "        for child in self.children:\n            for a in child.iterate_segments():", B, 'C10.R3'),
    ('c10-insert-order', 'C10', CTX, "if self.children[i].x12_map_node.pos <= map_idx:", "if self.children[i].x12_map_node.pos < map_idx:", B, 'C10.R5'),
    ('c10-copy-parent', 'C10', CTX, "            new_child.parent = ret\n", "", B, 'C10.R1'),
    # ---------------------------------------------------------------- C11
    ('c11-se-count', 'C11', X12, "self._get_trailer_segment('SE', self.seg_count + 1, id)", "self._get_trailer_segment('SE', self.seg_count, id)", B, 'C11.R2'),
    ('c11-benign-plus', 'C11', X12, "self._get_trailer_segment('SE', self.seg_count + 1, id)", "self._get_trailer_segment('SE', 1 + self.seg_count, id)", OK, None),
    ('c11-pairing', 'C11', X12, "            self._popToLoop('GS')", "            self._popToLoop('ST')", B, 'C11.R3'),
    ('c11-isa16', 'C11', X12, "        seg_data.set('ISA16', self.subele_term)\n", "", B, 'C11.R4'),
    ('c11-pop-unguarded', 'C11', X12, "        if len(self.loops) > 0:\n            loop = self.loops.pop()", "        if True:\n            loop = self.loops.pop()", B, 'C11.R3'),
    # ---------------------------------------------------------------- C12
    ('c12-literal-compare', 'C12', MIF, "            if child_node.is_composite():\n                # Validate composite", "            if ':' in (seg_data.get_value('%02i' % (i + 1)) or ''):\n                pass\n            if child_node.is_composite():\n                # Validate composite", B, 'C12.R1'),
    ('c12-ack-delims', 'C12', E97, "        self.seg_term = '~'", "        self.seg_term = term[0]", B, 'C12.R2'),
    ('c12-format-compare', 'C12', WLK, "        if seg_data.get_seg_id() == 'HL':", "        if seg_data.format().startswith('HL*'):", B, 'C12.R4'),
    # ---------------------------------------------------------------- C13
    ('c13-hour', 'C13', VAL, "val[0:2] > '23'", "val[0:2] > '24'", B, 'C13.R3'),
    ('c13-leap', 'C13', VAL, "not (not year % 100 and year % 400)", "not (not year % 100)", B, 'C13.R3'),
    ('c13-month-class', 'C13', VAL, "(4, 6, 9, 11)", "(4, 6, 9)", B, 'C13.R3'),
    ('c13-charset', 'C13', VAL, "a-z%~@", "a-z%@", B, 'C13.R1'),
    ('c13-time-len', 'C13', VAL, "len(val) not in (4, 6, 7, 8)", "len(val) not in (4, 6, 8)", B, 'C13.R4'),
    ('c13-benign-minute', 'C13', VAL, "val[2:4] > '59'", "val[2:4] >= '60'", OK, None),
    ('c13-year', 'C13', VAL, "if year < 1800", "if year < 1900", B, 'C13.R3'),
    ('c13-r-empty', 'C13', VAL, 'rec_R = re.compile("^-?([0-9]+(\\.[0-9]+)?|\\.[0-9]+)", REGEX_MODE)', 'rec_R = re.compile("^-?[0-9]*(\\.[0-9]+)?", REGEX_MODE)', B, 'C13.R1'),
    ('c13-rd8-unpack', 'C13', VAL, "if str_val.count('-') == 1:", "if '-' in str_val:", B, 'C13.R2'),
    # ---------------------------------------------------------------- C14
    ('c14-c-decision', 'C14', SYN, "if count != len(syn_idx) - 1:", "if count == 0:", B, 'C14.R3'),
    ('c14-l-guard', 'C14', SYN, "if len(seg_data) > syn_idx[0] - 1 and", "if len(seg_data) > syn_idx[0] and", B, 'C14.R3'),
    ('c14-benign-guard', 'C14', SYN, "if len(seg_data) > syn_idx[0] - 1 and", "if len(seg_data) >= syn_idx[0] and", OK, None),
    ('c14-letters', 'C14', MIF, "if syntax[0] not in ['P', 'R', 'C', 'L', 'E']:", "if syntax[0] not in ['P', 'R', 'C', 'E']:", B, 'C14.R2'),
    ('c14-routing', 'C14', MIF, "                if syn_type == 'E':\n                    errh.ele_error('10', err_str, None, syn[1])", "                if syn_type == 'E':\n                    errh.ele_error('2', err_str, None, syn[1])", B, 'C14.R4'),
    ('c14-p-presence', 'C14', SYN, "        for s in syn_idx:\n            _val = seg_data.get_value('{:02d}'.format(s))\n            if len(seg_data) >= s and _val != '':\n                count += 1\n        if count != 0 and count != len(syn_idx):",
     "        for s in syn_idx:\n            _val = seg_data.get_value('{:02d}'.format(s))\n            if len(seg_data) > s and _val != '':\n                count += 1\n        if count != 0 and count != len(syn_idx):", B, 'C14.R3'),
    # ---------------------------------------------------------------- C15
    ('c15-forget-clear', 'C15', MIF, "                self._error(errh, err_str, '9', elem_val)\n                valid = False\n            else:", "                self._error(errh, err_str, '9', elem_val)\n            else:", B, 'C15.R1'),
    ('c15-silent-false', 'C15', MIF, "        if self.rec:\n            m = self.rec.search(elem_val)", "        if elem_val.startswith('0'):\n            valid = False\n        if self.rec:\n            m = self.rec.search(elem_val)", B, 'C15.R2'),
    ('c15-len-ge', 'C15', MIF, "            if len(elem_val) > max_len:", "            if len(elem_val) >= max_len:", B, 'C15.R3'),
    ('c15-strip-more', 'C15', MIF, "elem_strip = elem_val.replace('-', '').replace('.', '')", "elem_strip = elem_val.replace('-', '').replace('.', '').replace('0', '')", B, 'C15.R3'),
    ('c15-first-comp', 'C15', MIF, "if self.seq != 1 or not self.parent.is_composite() or self.parent.usage == 'R':", "if self.seq != 1 or not self.parent.is_composite():", B, 'C15.R4'),
    ('c15-ext-set', 'C15', MIF, "self.root.ext_codes.isValid(self.external_codes, elem_val)", "self.root.ext_codes.isValid(self.data_ele, elem_val)", B, 'C15.R3'),
    ('c15-benign-len', 'C15', MIF, "            if len(elem_val) > max_len:", "            if max_len < len(elem_val):", OK, None),
    # ---------------------------------------------------------------- C16
    ('c16-index-dup', 'C16', 'pyx12/map/maps.xml', '<map vriic="004010X061A1" fic="RA" abbr="820">820.4010.X061.A1.xml</map>', '<map vriic="004010X061A1" fic="RA" abbr="820">820.4010.X061.A1.xml</map>\n    <map vriic="004010X061A1" fic="RA" abbr="820">820.4010.X061.A2.xml</map>', B, 'C16.R1'),
    ('c16-bad-usage', 'C16', 'pyx12/map/997.4010.xml', '<usage>R</usage>\n    <pos>001</pos>', '<usage>M</usage>\n    <pos>001</pos>', B, 'C16.R3'),
    ('c16-loader-file', 'C16', 'pyx12/dataele.py', "fd = resource_stream(__name__, os.path.join('map', dataele_file))", "fd = resource_stream(__name__, os.path.join('map', 'dataele.v2.xml'))", B, 'C16.R7'),
    ('c16-loader-field', 'C16', MIF, "        self.max_use = elem.get('max_use') if elem.get(\n            'max_use') else elem.findtext('max_use')\n        self.repeat = elem.get('repeat') if elem.get(\n            'repeat') else elem.findtext('repeat')\n\n        self.end_tag",
     "        self.max_use = elem.get('max_use') if elem.get(\n            'max_use') else elem.findtext('maxuse')\n        self.repeat = elem.get('repeat') if elem.get(\n            'repeat') else elem.findtext('repeat')\n\n        self.end_tag", B, 'C16.R8'),
    # ---------------------------------------------------------------- C17
    ('c17-regex', 'C17', PTH, "re_ele_idx = '(?P<ele_idx>[0-9]{2})?'", "re_ele_idx = '(?P<ele_idx>[0-9]{1,2})?'", B, 'C17.R1'),
    ('c17-fmt', 'C17', PTH, "ret += '%02i' % (self.ele_idx)", "ret += '%i' % (self.ele_idx)", B, 'C17.R2'),
    ('c17-benign-fmt', 'C17', PTH, "ret += '%02i' % (self.ele_idx)", "ret += '{:02d}'.format(self.ele_idx)", OK, None),
    ('c17-refusal', 'C17', PTH, "if self.seg_id is None and (self.ele_idx is not None or self.subele_idx is not None) and len(self.loop_list) > 0:", "if self.seg_id is None and (self.ele_idx is not None) and len(self.loop_list) > 0:", B, 'C17.R3'),
    ('c17-pad', 'C17', SEG, "        while len(self.elements) <= ele_idx:", "        while len(self.elements) < ele_idx:", B, 'C17.R4'),
    # ---------------------------------------------------------------- C18
    ('c18-mutate-default', 'C18', MIF, "        errh.add_ele(self)\n\n        if elem and elem.is_composite():", "        errh.add_ele(self)\n        type_list.append('X')\n        if elem and elem.is_composite():", B, 'C18.R1'),
    ('c18-alias-mutate', 'C18', CTX, "        self._cleanup()\n        map_idx = x12_node.pos", "        self._cleanup()\n        self.end_loops.append(x12_node)\n        map_idx = x12_node.pos", B, 'C18.R1'),
    ('c18-module-cache', 'C18', 'pyx12/map_index.py', "class map_index(object):", "_CACHE = {}\ndef _remember(k, v):\n    _CACHE[k] = v\nclass map_index(object):", B, 'C18.R2'),
    ('c18-time', 'C18', EH, "        self.cur_line = 0\n        self.err_cde = None", "        import time\n        self.cur_line = int(time.time())\n        self.err_cde = None", B, 'C18.R3'),
    ('c18-unsort', 'C18', E97, "        ret = list(set(err_codes))\n        ret.sort()\n        return ret\n\n    def visit_gs_post", "        ret = list(set(err_codes))\n        return ret\n\n    def visit_gs_post", B, 'C18.R4'),
    ('c18-benign-sorted', 'C18', E97, "        ret = list(set(err_codes))\n        ret.sort()\n        return ret\n\n    def visit_gs_post", "        ret = sorted(set(err_codes))\n        return ret\n\n    def visit_gs_post", OK, None),
    # ---------------------------------------------------------------- C19
    ('c19-amp-last', 'C19', HTM, "    output = output.replace('&', '&amp;')\n    output = output.replace(' ', '&nbsp;')", "    output = output.replace(' ', '&nbsp;')\n    output = output.replace('&', '&amp;')", B, 'C19.R2'),
    ('c19-unescape-value', 'C19', HTM, "                ele_str = escape_html_chars(comp.format())\n                if i in ele_pos_map.keys():", "                ele_str = comp.format()\n                if i in ele_pos_map.keys():", B, 'C19.R1'),
    ('c19-filter', 'C19', HTM, "                if err_cde != '3':", "                if err_cde not in ('3', '8'):", B, 'C19.R4'),
    ('c19-skip-seg', 'C19', DOC, "            html.gen_seg(seg, src, err_node_list)", "            if err_node_list or valid:\n                html.gen_seg(seg, src, err_node_list)", B, 'C19.R3'),
    ('c19-unescape-msg', 'C19', HTM, "(escape_html_chars(err_str), err_cde))", "(err_str, err_cde))", B, 'C19.R1'),
    # ---------------------------------------------------------------- C20
    ('c20-se-value', 'C20', NRM, "'%i' % (src.seg_count + 1)", "'%i' % (src.seg_count)", B, 'C20.R3'),
    ('c20-code', 'C20', NRM, "'5' in err_codes", "'4' in err_codes", B, 'C20.R3'),
    ('c20-reader-code', 'C20', X12, "self._isa_error('021', err_str)", "self._isa_error('022', err_str)", B, 'C20.R3'),
    ('c20-pad', 'C20', NRM, "seg_data.set('GE01', '%i' % (src.st_count))", "seg_data.set('GE01', '%02i' % (src.st_count))", B, 'C20.R3'),
    ('c20-inplace-lost', 'C20', NRM, "fd_orig.write(fd_out.read())", "fd_orig.write('')", B, 'C20.R2'),
    ('c20-output-lost', 'C20', NRM, "                with open(args.outputfile, mode='w', encoding='ascii') as fd_final:\n                    fd_final.write(fd_out.read())", "                fd_out = open(args.outputfile, mode='w', encoding='ascii')", B, 'C20.R2'),
    # ---------------------------------------------------------------- round 9 rules
    ('c04-pop-keeps-list', 'C04', X12, "        tmp = self.err_list\n        self.err_list = []\n        return tmp", "        tmp = self.err_list\n        return tmp", B, 'C04.R11'),
    ('c04-pop-copy-clear', 'C04', X12, "        tmp = self.err_list\n        self.err_list = []\n        return tmp", "        tmp = list(self.err_list)\n        del self.err_list[:]\n        return tmp", OK, None),
    ('c04-pop-swap', 'C04', X12, "        tmp = self.err_list\n        self.err_list = []\n        return tmp", "        errors, self.err_list = self.err_list, []\n        return errors", OK, None),
    ('c04-gs-error-once', 'C04', X12, "        self.err_list.append(('gs', err_cde, err_str, None, None))", "        if ('gs', err_cde, err_str, None, None) not in self.err_list:\n            self.err_list.append(('gs', err_cde, err_str, None, None))", B, 'C04.R11'),
    ('c05-close-st-current', 'C05', EH, "        self.cur_st_node.close(node, seg, src)\n        self.cur_seg_node = self.cur_st_node", "        self.cur_st_node.close(node, seg, src)\n        self.cur_seg_node = self.cur_gs_node", B, 'C05.R18'),
    ('c05-add-gs-current-benign', 'C05', EH, "        self.cur_gs_node = parent.children[-1]\n        self.cur_seg_node = self.cur_gs_node", "        node = parent.children[-1]\n        self.cur_seg_node = node\n        self.cur_gs_node = node", OK, None),
    ('c10-select-type-order', 'C10', CTX, "                if child.type == 'seg':\n                    (is_match, qual_code, ele_idx, subele_idx) = child.x12_map_node.is_match_qual(child.seg_data, cur_node_id, qual)\n                    if is_match:\n                        yield child\n                else:\n                    if child.id == cur_node_id:\n                        yield child",
     "                if child.type == 'seg':\n                    (is_match, qual_code, ele_idx, subele_idx) = child.x12_map_node.is_match_qual(child.seg_data, cur_node_id, qual)\n                    if is_match:\n                        yield child\n                        return\n                else:\n                    if child.id == cur_node_id:\n                        yield child", B, 'C10.R9'),
    ('c12-format-concat-benign', 'C12', SEG, "        return '%s%s%s%s' % (self.seg_id, ele_term, ele_term.join(str_elems), seg_term)", "        return self.seg_id + ele_term + ele_term.join(str_elems) + seg_term", OK, None),
    ('c12-format-braces', 'C12', SEG, "        return '%s%s%s%s' % (self.seg_id, ele_term, ele_term.join(str_elems), seg_term)", "        return ('{}' + ele_term + '{}' + seg_term).format(self.seg_id, ele_term.join(str_elems))", B, 'C12.R9'),
    ('c15-not-match-ascii-shortcut', 'C15', VAL, "    if short_data_type in ('ID', 'AN'):\n        if charset == 'E':", "    if short_data_type in ('ID', 'AN'):\n        if val.isdigit():\n            return False\n        if charset == 'E':", B, 'C15.R10'),
    ('c17-len-benign', 'C17', SEG, "        return len(self.elements)\n\n    def get_seg_id(self):", "        count = 0\n        for _ele in self.elements:\n            count += 1\n        return count\n\n    def get_seg_id(self):", OK, None),
    ('c17-init-skip-empty', 'C17', SEG, "            else:\n                self.elements.append(Composite(ele, subele_term))\n\n    def __eq__(self, other):\n        if isinstance(other, Segment):", "            elif ele or True:\n                self.elements.append(Composite(ele or '', subele_term))\n\n    def __eq__(self, other):\n        if isinstance(other, Segment):", OK, None),
    ('c08-elem-raw-content', 'C08', XMW, "self._write(\">{}</{}>\\n\".format(self._escape_cont(content), elem))", "self._write(\">{}</{}>\\n\".format(content, elem))", B, 'C08.R2'),
    ('c08-elem-fstring-benign', 'C08', XMW, "self._write(\">{}</{}>\\n\".format(self._escape_cont(content), elem))", "text = self._escape_cont(content)\n        self._write(f'>{text}</{elem}>\\n')", OK, None),
    ('c08-push-double-quote', 'C08', XMW, "        for (a, v) in attrs.items():\n            self._write(\" {}='{}'\".format(a, self._escape_attr(v)))\n        self._write(\">\\n\")", "        for (a, v) in attrs.items():\n            self._write(' {}=\"{}\"'.format(a, self._escape_attr(v)))\n        self._write(\">\\n\")", B, 'C08.R2'),
    ('c10-count-from-one', 'C10', CTX, "        ct = 0\n        (curr, new_path) = self._get_start_node(x12_path_str)", "        ct = 1\n        (curr, new_path) = self._get_start_node(x12_path_str)", B, 'C10.R10'),
    ('c10-exists-any-benign', 'C10', CTX, "        for n in curr._select(xpath):\n            return True\n        return False", "        return any(True for _n in curr._select(xpath))", OK, None),
    ('c10-first-skips', 'C10', CTX, "        for node in self.select(x12_path_str):\n            return node", "        found = None\n        for node in self.select(x12_path_str):\n            found = node\n        return found", B, 'C10.R10'),
    ('c17-blank-is-empty', 'C17', SEG, "        if self.value is not None and self.value != '':\n            return False", "        if self.value is not None and self.value.strip() != '':\n            return False", B, 'C17.R9'),
    ('c17-get-off-by-one', 'C17', SEG, "        if ele_idx >= self.__len__():\n            return None", "        if ele_idx > self.__len__():\n            return None", B, 'C17.R9'),
    ('c17-get-len-benign', 'C17', SEG, "        if ele_idx >= self.__len__():\n            return None", "        if not ele_idx < len(self):\n            return None", OK, None),
    ('c17-segment-empty-any-benign', 'C17', SEG, "        if len(self.elements) == 0:\n            return True\n        for ele in self.elements:\n            if not ele.is_empty():\n                return False\n        return True\n\n    def is_seg_id_valid(self):", "        return all(ele.is_empty() for ele in self.elements)\n\n    def is_seg_id_valid(self):", OK, None),
    ('c10-qual-ignores-value', 'C10', MIF, "                if qual_code in self.children[0].valid_codes and seg_data.get_value('01') == qual_code:\n                    return (True, qual_code, 1, None)", "                if qual_code in self.children[0].valid_codes:\n                    return (True, qual_code, 1, None)", B, 'C10.R11'),
    ('c10-qual-hl-position', 'C10', MIF, "                    return (True, qual_code, 3, None)", "                    return (True, qual_code, 2, None)", B, 'C10.R11'),
    ('c10-set-keeps-qualifier', 'C10', CTX, "        xpath.loop_list = []\n        xpath.id_val = None\n        seg_part = xpath.format()\n        seg_data.set(seg_part, val)", "        xpath.loop_list = []\n        seg_part = xpath.format()\n        seg_data.set(seg_part, val)", B, 'C10.R12'),
    ('c10-get-none-benign', 'C10', CTX, "        seg_data = self.get_first_matching_segment(x12_path_str)\n        if seg_data is None:\n            return None\n        return seg_data.get_value(x12_path_str)", "        seg_data = self.get_first_matching_segment(x12_path_str)\n        return None if seg_data is None else seg_data.get_value(x12_path_str)", OK, None),
    ('c10-segnode-set-silent', 'C10', CTX, "        if seg_data is None:\n            raise errors.X12PathError('X12 Path is invalid or was not found: %s' % (x12_path_str))\n        #ele_idx = self.get_ele_idx(x12_path_str)", "        if seg_data is None:\n            return\n        #ele_idx = self.get_ele_idx(x12_path_str)", B, 'C10.R12'),
    ('c05-gs-id-last-loop', 'C05', X12, "        for loop in self.loops:\n            if loop[0] == 'GS':\n                return loop[1]\n        return None", "        for loop in self.loops:\n            if loop[0] in ('GS', 'ST'):\n                return loop[1]\n        return None", B, 'C05.R19'),
    ('c09-cur-line-getter', 'C09', X12, "        return self.cur_line\n\n    def get_term(self):", "        return self.cur_line + 1\n\n    def get_term(self):", B, 'C09.R13'),
    ('c15-control-only-leading', 'C15', VAL, "    for (k, v) in control_base.items():\n        if k in str_val:", "    for (k, v) in control_base.items():\n        if str_val.startswith(k):", B, 'C15.R11'),
    ('c15-control-one-loop-benign', 'C15', VAL, "    for (k, v) in control_base.items():\n        if k in str_val:\n            return (True, \"<{}>\".format(v))\n    for (k, v) in extended_base.items():\n        if k in str_val:\n            return (True, \"<{}>\".format(v))\n    return (False, None)",
     "    for table in (control_base, extended_base):\n        for (k, v) in table.items():\n            if k in str_val:\n                return (True, \"<{}>\".format(v))\n    return (False, None)", OK, None),
    ('c10-delete-node-all', 'C10', CTX, "        for n in curr._select(xpath):\n            n.delete()\n            return True\n        return False", "        found = False\n        for n in curr._select(xpath):\n            n.delete()\n            found = True\n        return found", B, 'C10.R13'),
    ('c10-delete-keeps-type', 'C10', CTX, "        self.x12_map_node = None\n        self.type = None\n        self.seg_data = None", "        self.x12_map_node = None\n        self.seg_data = None", B, 'C10.R13'),
    ('c08-loop-repeat-branch-redundant-benign', 'C08', XMS, "        if self.last_path == cur_path and seg_node.is_first_seg_in_loop():", "        if self.last_path == cur_path and seg_node.is_first_seg_in_loop() and False:", OK, None),
    ('c08-new-parent-instance-not-reopened', 'C08', XMS, "            if seg_node.is_first_seg_in_loop() and root_path == cur_path:\n                match_idx -= 1\n", "", B, 'C08.R11'),
    ('c08-loop-close-one-short', 'C08', XMS, "            for i in range(len(last_path) - 1, match_idx - 1, -1):\n                self.writer.pop()", "            for i in range(len(last_path) - 1, match_idx, -1):\n                self.writer.pop()", B, 'C08.R11'),
    ('c08-loop-pops-count-benign', 'C08', XMS, "            for i in range(len(last_path) - 1, match_idx - 1, -1):\n                self.writer.pop()", "            for _n in range(match_idx, len(last_path)):\n                self.writer.pop()", OK, None),
    ('c08-notused-written', 'C08', XMS, "            if child_node.usage == 'N' or seg_data.get('%02i' % (i + 1)).is_empty():", "            if seg_data.get('%02i' % (i + 1)).is_empty():", B, 'C08.R12'),
    ('c08-subele-wrong-id', 'C08', XMS, "                    (xname, attrib) = self._get_subele_info(subele_node.id)", "                    (xname, attrib) = self._get_subele_info(child_node.id)", B, 'C08.R12'),
    ('c01-iter-blank-not-stripped', 'C01', X12, "                line = line.lstrip()\n", "", B, 'C01.R11'),
    ('c01-iter-seg1-line', 'C01', X12, "                self._seg_error('SEG1', err_str, None, src_line=self.cur_line + 1)", "                self._seg_error('SEG1', err_str, None, src_line=self.cur_line)", B, 'C01.R11'),
    ('c01-iter-startswith-benign', 'C01', X12, "            if line.startswith(' '):", "            if line[:1] == ' ':", OK, None),
    # ---------------------------------------------------------------- round 10 rules
    ('c04-ctx-st-errors-dropped', 'C04', CTX, "        self.err_st.extend(errh.err_st)\n", "", B, 'C04.R12'),
    ('c05-ele-node-to-st', 'C05', EH, "            self.cur_seg_node.elements.append(self.cur_ele_node)\n            self.ele_node_added = True", "            self.cur_st_node.elements.append(self.cur_ele_node)\n            self.ele_node_added = True", B, 'C05.R20'),
    ('c06-999-ak9-seven-codes', 'C06', E99, "        for err_cde in err_codes[:5]:\n            seg_data.append(err_cde)", "        for err_cde in err_codes[:7]:\n            seg_data.append(err_cde)", B, 'C06.R10'),
    ('c06-999-ik5-four-codes-benign', 'C06', E99, "        for err_code in err_codes[:5]:\n            seg_data.append(err_code)", "        for i, err_code in enumerate(err_codes):\n            if i >= 5:\n                break\n            seg_data.append(err_code)", OK, None),
    ('c09-iterate-reversed', 'C09', CTX, "        for child in [x for x in self.children if x.type is not None]:\n            for a in child.iterate_segments():\n                yield a", "        for child in reversed([x for x in self.children if x.type is not None]):\n            for a in child.iterate_segments():\n                yield a", B, 'C09.R14'),
    ('c13-century-49-benign', 'C13', VAL, "val = '20' + val if int(val[0:2]) < 50 else '19' + val", "val = '20' + val if int(val[0:2]) < 49 else '19' + val", OK, None),
    ('c13-century-all-1900', 'C13', VAL, "val = '20' + val if int(val[0:2]) < 50 else '19' + val", "val = '19' + val", B, 'C13.R3'),
    ('c15-exclude-tuple-benign', 'C15', 'pyx12/codes.py', "exclude.split(',') if exclude is not None else []", "tuple(exclude.split(',')) if exclude is not None else ()", OK, None),
    ('c17-eq-is-seg-id', 'C17', PTH, "self.seg_id == other.seg_id", "self.seg_id is other.seg_id", B, 'C17.R10'),
    ('c07-gs-error-concat', 'C07', WLK, "            seg_str = '%s*%s' % (seg_data.get_seg_id(), seg_data.get_value('01'))", "            seg_str = 'X*' + seg_data.get_value('01')", B, 'C07.R2'),
]
